#!/bin/sh
# usage: tools/mutant_run.sh <patch> <Cxx> [tier]
# Applies <patch> to a scratch worktree of /repo under /tmp, runs the check
# against it (AMOSIM_REPO), prints the verdict, removes the worktree.
set -u
PATCH=$(realpath "$1"); PROP=$2; TIER=${3:-quick}
HERE=$(cd "$(dirname "$0")/.." && pwd)
S=$(mktemp -d /tmp/amosim-scratch-XXXXXX)
rmdir "$S"
git -C /repo worktree add -q --detach "$S" HEAD || exit 2
cleanup() { git -C /repo worktree remove --force "$S" 2>/dev/null; rm -rf "$S" "$OUT"; }
OUT=$(mktemp -d /tmp/amosim-out-XXXXXX)
trap cleanup EXIT
if ! git -C "$S" apply "$PATCH"; then echo "PATCH-DOES-NOT-APPLY $PATCH"; exit 2; fi
if [ "${MUTANT_RUN_TESTS:-0}" = 1 ]; then
  (cd "$S" && timeout 900 /venv/bin/python -m pytest -q -p no:cacheprovider --timeout=900 -x 2>&1 | tail -1)
fi
cd "$HERE"
AMOSIM_REPO="$S" AMOSIM_EVIDENCE_DIR="$OUT/ev" AMOSIM_REPLAY_DIR="$OUT/rp" ./check "$PROP" --tier "$TIER" > "$OUT/log" 2>&1
RC=$?
grep -E "^(VIOLATION|HARNESS)" "$OUT/log" | head -6
echo "($(grep -c "^KNOWN-FINDING" "$OUT/log") KNOWN-FINDING lines)"
echo "MUTANT $(basename "$PATCH") $PROP exit=$RC"
exit 0
