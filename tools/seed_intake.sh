#!/bin/sh
# usage: tools/seed_intake.sh <seed-id> <Cxx> <agent worktree> <demo file name>
# Takes a sub-agent's uncommitted change, confirms it in a fresh scratch worktree
# (demo passes without / fails with the change, test suite still passes), and
# stores patch.diff + demo + meta.json under /verif/seeded/<seed-id>/.
set -u
ID=$1; PROP=$2; WT=$3; DEMO=$4
HERE=$(cd "$(dirname "$0")/.." && pwd)
D=$HERE/seeded/$ID
mkdir -p "$D"
git -C "$WT" diff > "$D/patch.diff"
cp "$WT/$DEMO" "$D/$DEMO"
S=$(mktemp -d /tmp/amosim-scratch-XXXXXX); rmdir "$S"
git -C /repo worktree add -q --detach "$S" HEAD || exit 2
trap 'git -C /repo worktree remove --force "$S" 2>/dev/null; rm -rf "$S"' EXIT
cp "$D/$DEMO" "$S/"
(cd "$S" && PYTHONPATH="$S" AMOCO_LOG_LEVEL=CRITICAL timeout 600 /venv/bin/python "$DEMO" > /tmp/seed-without.log 2>&1); RC0=$?
git -C "$S" apply "$D/patch.diff" || { echo "PATCH DOES NOT APPLY"; exit 2; }
(cd "$S" && PYTHONPATH="$S" AMOCO_LOG_LEVEL=CRITICAL timeout 600 /venv/bin/python "$DEMO" > /tmp/seed-with.log 2>&1); RC1=$?
T=$(cd "$S" && PYTHONPATH="$S" timeout 900 /venv/bin/python -m pytest -q -p no:cacheprovider --timeout=900 tests 2>&1 | grep -E "passed|failed" | tail -1)
echo "seed $ID ($PROP): demo without=$RC0 with=$RC1 tests: $T"
cat > "$D/confirm.txt" <<EOT
demo exit without the change: $RC0
demo exit with the change:    $RC1
test suite with the change:   $T
EOT
