#!/bin/sh
# usage: tools/soak.sh <first-seed> <last-seed> [tier] [props...]   (run from /verif or a snapshot)
# Runs every claimed check with each VERIF_SEED; prints one line per run, and the
# VIOLATION / HARNESS lines of any run that did not exit 0.
A=$1; B=$2; TIER=${3:-quick}; shift 3 2>/dev/null
PROPS=${*:-C08 C09 C10 C11 C13 C18 C20}
OUT=$(mktemp -d /tmp/amosim-soak-XXXXXX)
for s in $(seq $A $B); do
  for p in $PROPS; do
    VERIF_SEED=$s AMOSIM_EVIDENCE_DIR=$OUT/ev AMOSIM_REPLAY_DIR=$PWD/replays-soak ./check $p --tier $TIER > $OUT/log 2>&1
    rc=$?
    echo "seed=$s prop=$p tier=$TIER exit=$rc"
    if [ $rc -ne 0 ]; then grep -E "^(VIOLATION|HARNESS|note)" $OUT/log; fi
  done
done
rm -rf $OUT
