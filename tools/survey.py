#!/venv/bin/python
"""tools/survey.py <engine> <prop> [tier] -- run a plan in survey mode (worlds
do not stop at the first violation) and print the signature table."""
import sys, os, json, collections, importlib
sys.path.insert(0, os.path.dirname(os.path.dirname(os.path.abspath(__file__))))
from amosim.supervisor import Pool
eng, prop = sys.argv[1], sys.argv[2]
tier = sys.argv[3] if len(sys.argv) > 3 else "quick"
E = importlib.import_module("amosim.engines." + eng)
specs = E.plan(prop, tier, int(os.environ.get("VERIF_SEED", "0")))
for s in specs:
    s.update({"prop": prop, "tier": "quick", "timeout": 300, "known_keys": [], "survey": True})
with Pool(eng) as p:
    rs = p.map(specs)
st = collections.Counter(); ex = {}
status = collections.Counter(r["status"] for r in rs)
for r in rs:
    for k, v in (r.get("stats") or {}).items():
        if k.startswith("survey:"): st[k[7:]] += v
    for k, v in (r.get("survey") or {}).items(): ex.setdefault(k, v)
    if r["status"] == "violation":
        st[r["violation"]["signature"]] += 1; ex.setdefault(r["violation"]["signature"], {"case": r["trace"], "detail": r["violation"]["detail"]})
print(status)
for r in rs:
    if r["status"] not in ("ok", "violation"):
        print(json.dumps(r)[:1500]); break
for k, v in st.most_common():
    print("%6d  %s" % (v, k))
json.dump(ex, open("/tmp/survey_%s.json" % prop, "w"), indent=1)
print("examples in /tmp/survey_%s.json" % prop)
