#!/venv/bin/python
"""tools/mkmutant.py <name> <repo-relative file> <old> <new> [<file> <old> <new> ...]
Writes mutants/<name>.patch: a unified diff against /repo's working tree."""
import difflib, sys, os
name = sys.argv[1]
args = sys.argv[2:]
out = []
for k in range(0, len(args), 3):
    f, old, new = args[k:k+3]
    src = open(os.path.join("/repo", f)).read()
    assert src.count(old) == 1, "pattern occurs %d times in %s" % (src.count(old), f)
    dst = src.replace(old, new)
    out.extend(difflib.unified_diff(src.splitlines(True), dst.splitlines(True), "a/" + f, "b/" + f))
here = os.path.dirname(os.path.dirname(os.path.abspath(__file__)))
open(os.path.join(here, "mutants", name + ".patch"), "w").write("".join(out))
print("wrote mutants/%s.patch (%d lines)" % (name, len(out)))
