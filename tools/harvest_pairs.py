#!/venv/bin/python
"""tools/harvest_pairs.py [rounds] -- development tool for C10: runs the guided
pair layer in collect mode (worlds go on after a confirmed divergence), then
attributes each distinct divergence to the polluter's write site(s) by
replaying its 3-step history with one candidate site undone at a time, and
appends `open:` lines (with the history as witness) to known_findings.txt."""
import json, os, re, sys
HERE = os.path.dirname(os.path.dirname(os.path.abspath(__file__)))
sys.path.insert(0, HERE)
from amosim.driver import KNOWN_FILE, load_known
from amosim.supervisor import Pool
from amosim.engines import heapsim_isa as E
sys.path.insert(0, os.path.join(HERE, "tools"))
from harvest import describe

def main():
    rounds = int(sys.argv[1]) if len(sys.argv) > 1 else 4
    tier = sys.argv[2] if len(sys.argv) > 2 else "quick"
    pool = Pool("heapsim_isa")
    try:
        for rnd in range(rounds):
            opened, _ = load_known("C10")
            known = [e["key"] for e in opened]
            specs = [s for s in E.plan("C10", tier, rnd) if s["kind"] == "pairs" and (not os.environ.get("HARVEST_ISA") or s["isa"].endswith(tuple(os.environ["HARVEST_ISA"].split(","))))]
            for s in specs:
                s.update({"prop": "C10", "tier": tier, "timeout": 900, "known_keys": known, "collect": True})
            rs = pool.map(specs, chunk=1)
            items = []
            for s, r in zip(specs, rs):
                if r["status"] not in ("ok",):
                    print("  world %s: %s %s" % (s["isa"], r["status"], (r.get("error") or r.get("tb") or "")[-300:]))
                for it in r.get("collected") or []:
                    items.append(it)
            print("round %d: %d divergent site-sets collected (known keys: %d)" % (rnd, len(items), len(known)))
            sys.stdout.flush()
            if not items:
                break
            added = 0
            for it in items:
                cands = [c for c in it["detail"].get("write_sites_since_first") or [] if c not in known]
                def fails(keys):
                    spec = {"kind": "trace", "config": {}, "trace": it["trace"], "prop": "C10", "tier": "quick", "known_keys": known + keys, "timeout": 300}
                    r = pool.map([spec], chunk=1)[0]
                    return r.get("status") == "violation"
                if not fails([]):
                    continue  # already covered by keys added in this round
                culprits = [c for c in cands if not fails([c])][:1] if len(cands) <= 6 else []
                if not culprits and cands and not fails(cands):
                    keep = list(cands)
                    for c in list(keep):
                        trial = [x for x in keep if x != c]
                        if not fails(trial):
                            keep = trial
                    culprits = keep
                if not culprits:
                    print("  UNATTRIBUTED", it["detail"].get("pair"), cands)
                    continue
                for key in culprits:
                    n = len(known) + 1
                    wname = "replays/known/C10-%02d-%s.json" % (n, re.sub(r"[^A-Za-z0-9_.]+", "_", key)[-60:])
                    doc = {"property": "C10", "engine": "heapsim_isa", "seed": None, "tier": "quick", "config": {}, "trace": it["trace"], "replay_extra": None,
                           "violation_class": it["class"], "signature": it["signature"], "detail": it["detail"], "minimised_from": len(it["trace"]), "amoco_rev": "484ac07", "dirty": False}
                    json.dump(doc, open(os.path.join(HERE, wname), "w"), indent=1, sort_keys=True)
                    with open(KNOWN_FILE, "a") as f:
                        f.write("open: property=C10 key=%s witness=%s :: %s\n" % (key, wname, describe(doc, key)))
                    known.append(key)
                    added += 1
                    print("  + %s" % key)
                    sys.stdout.flush()
            if not added:
                print("no progress")
                break
    finally:
        pool.close()

if __name__ == "__main__":
    main()
