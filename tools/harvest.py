#!/venv/bin/python
"""tools/harvest.py <Cxx> [rounds] [first-seed]

Development tool (never run by a registered check): builds the list of open
known findings for the write-site keyed properties (C10, C13).

Each round runs the quick plan with the current known_findings.txt; every
reported violation is minimised (by the normal driver), then attributed: the
minimised trace is replayed with each candidate write site (the sites written
between the first observation and the divergence) listed alone; the site(s)
whose undo makes the violation disappear are the culprits.  A new `open:` line
with the minimised trace as witness is appended for each culprit.  Stops when a
round is clean.
"""
import json
import os
import re
import sys

HERE = os.path.dirname(os.path.dirname(os.path.abspath(__file__)))
sys.path.insert(0, HERE)
from amosim import PROPERTIES  # noqa
from amosim.driver import Check, KNOWN_FILE, load_known  # noqa
from amosim.supervisor import Pool  # noqa


def attribute(chk, doc):
    """-> (culprit keys, candidates)"""
    det = doc.get("detail") or {}
    cands = list(det.get("write_sites_since_first") or []) + list(det.get("writes") or []) + list(det.get("recent_writes") or [])
    seen = []
    for c in cands:
        if c not in seen:
            seen.append(c)
    cands = seen
    if not cands:
        return [], []
    base = list(chk.known_keys)

    def fails(keys):
        spec = {"kind": "trace", "config": doc["config"], "trace": doc["trace"], "prop": chk.prop, "tier": "quick", "known_keys": base + keys, "timeout": 300}
        r = chk.pool.map([spec], chunk=1)[0]
        return r.get("status") == "violation", r

    culprits = []
    for c in cands:
        f, _ = fails([c])
        if not f:
            culprits.append(c)
    if culprits:
        return culprits[:1], cands
    f, r = fails(cands)
    if not f:
        # needs several: greedy reduction
        keep = list(cands)
        for c in list(keep):
            trial = [x for x in keep if x != c]
            f2, _ = fails(trial)
            if not f2:
                keep = trial
        return keep, cands
    # the replay with everything undone still fails: new sites may appear then
    det2 = (r.get("violation") or {}).get("detail") or {}
    more = [x for x in (det2.get("write_sites_since_first") or []) if x not in cands]
    return [], cands + more


def describe(doc, key):
    det = doc.get("detail") or {}
    diff = det.get("diff") or {}
    pair = det.get("pair")
    what = "in-place write %s on a node that other results hold changes a later observation" % key
    if pair:
        what += ": after decoding+executing %s (%s), the victim %s (%s)" % (pair["polluter"][1], pair["polluter"][0].strip(), pair["victim"][1], pair["victim"][0].strip())
    if diff.get("kind") == "value":
        what += " evaluates %s to %s instead of %s" % (diff.get("loc"), diff.get("now"), diff.get("first"))
    elif diff:
        what += " (%s: %s -> %s)" % (diff.get("kind"), json.dumps(diff.get("first"))[:60], json.dumps(diff.get("now"))[:60])
    elif "was" in det:
        what += " (%s: %s -> %s)" % (det.get("expr", "")[:60], det.get("was"), det.get("now"))
    return re.sub(r"\s+", " ", what)


def main():
    prop = sys.argv[1]
    rounds = int(sys.argv[2]) if len(sys.argv) > 2 else 10
    seed0 = int(sys.argv[3]) if len(sys.argv) > 3 else 0
    os.environ["AMOSIM_EVIDENCE_DIR"] = "/tmp/amosim-harvest-ev"
    os.environ["AMOSIM_REPLAY_DIR"] = "/tmp/amosim-harvest-rp"
    os.environ["AMOSIM_MAX_REPORTS"] = "12"
    for rnd in range(rounds):
        seed = seed0 + rnd
        out = open("/tmp/amosim-harvest.log", "w")
        chk = Check(prop, PROPERTIES[prop], "quick", seed, out)
        rc = chk.run()
        out.close()
        lines = [l for l in open("/tmp/amosim-harvest.log") if l.startswith("VIOLATION")]
        print("round %d seed %d: exit %d, %d reported" % (rnd, seed, rc, len(lines)))
        sys.stdout.flush()
        if rc == 3:
            print(open("/tmp/amosim-harvest.log").read()[-3000:])
        if not lines:
            if rc == 0:
                continue
            break
        chk = Check(prop, PROPERTIES[prop], "quick", seed)
        chk.pool = Pool(PROPERTIES[prop], workers=4)
        added = 0
        try:
            for l in lines:
                path = re.search(r"replay=(\S+)", l).group(1)
                doc = json.load(open(path))
                culprits, cands = attribute(chk, doc)
                if not culprits:
                    print("  UNATTRIBUTED %s candidates=%s" % (path, cands))
                    continue
                opened, _ = load_known(prop)
                have = set(e["key"] for e in opened)
                for key in culprits:
                    if key in have:
                        continue
                    n = len(have) + 1
                    wname = "replays/known/%s-%02d-%s.json" % (prop, n, re.sub(r"[^A-Za-z0-9_.]+", "_", key)[-60:])
                    json.dump(doc, open(os.path.join(HERE, wname), "w"), indent=1, sort_keys=True)
                    with open(KNOWN_FILE, "a") as f:
                        f.write("open: property=%s key=%s witness=%s :: %s\n" % (prop, key, wname, describe(doc, key)))
                    have.add(key)
                    added += 1
                    print("  + %s  (%s)" % (key, wname))
                    chk.known_keys.append(key)
        finally:
            chk.pool.close()
        if not added:
            print("no progress in round %d" % rnd)
            break


if __name__ == "__main__":
    main()
