#!/bin/sh
# Nothing to compile or fetch: the framework is pure Python and runs on /venv
# (python 3.12 with amoco installed editable from /repo).
set -e
cd "$(dirname "$0")"
/venv/bin/python - <<'PY'
import amoco, os, sys
p = os.path.realpath(amoco.__file__)
assert p.startswith('/repo/'), "amoco must import from /repo, got %s" % p
print("setup ok: amoco from", p)
PY
mkdir -p evidence replays
