#!/venv/bin/python
"""Regenerates MANIFEST.json from the table below (keeps it valid at all times)."""
import json, os

CLAIMED = {
    "C08": dict(engine="memsim", level="exploration", ref="3.1",
        technique="deterministic simulation: seeded write/read/maintenance-op histories on MemoryMap vs. a byte-level reference model, ddmin-minimised replayable traces",
        text="Seeded histories of raw/constant/symbolic writes (both endiannesses, overlapping in every way, concrete and symbolic zones; earlier values stored again whole or as the slice already lying there, with the same or the other endianness) interleaved with reads and with restruct/copy/shift/merge at arbitrary instants are checked byte for byte against a last-write-wins byte map through an independent evaluator. Sampling of histories, not proof.",
        note="trusts the 60-line independent evaluator and the byte model; no I/O fault seam exists in this code, the adversary is the history and the placement of maintenance operations"),
    "C09": dict(engine="aliassim", level="exploration", ref="3.2",
        technique="deterministic simulation: store/load programs through symbolic pointers, late (adversarial) pointer resolution, mods-replay interpreter vs. bytearray execution",
        text="Seeded load/store programs over several pointer registers are executed symbolically, then the environment reveals pointer values (equal, partially overlapping, adjacent, disjoint) and every loaded value (call-form and index-form loads, fresh or pre-assigned result registers; with its mods replayed by an independent interpreter) and the final memory are compared with a sequential bytearray execution. Known genuine defects are carved out by scenario predicates and replayed as witnesses.",
        note="trusts the bytearray model and the independent mods interpreter; carve-outs over-approximate the known defects' trigger regions and cost coverage there"),
    "C10": dict(engine="heapsim_isa", level="exploration", ref="3.3",
        technique="deterministic simulation: seeded interleaving of analysis clients on one process image (one long history per forked world), first-occurrence (temporal) oracle on every observation + sampled pristine forked reference worlds, guided polluter x victim layer confirmed in pristine forks, heap write barrier for attribution and undo of listed sites",
        text="Analysis clients (decode / build map / evaluate / re-evaluate / rebuild / compose / continue the analysis on a copy derived from a stored map / pickle / aborted builds) of several ISAs are interleaved on one process image by a seeded scheduler; every constant observation must equal the first observation of the same (ISA, block, state) in that process - on the old map and on a map rebuilt after the intervening history - and sampled first observations must equal a pristine forked process that executes only the dependency chain. Every client ISA has a battery (its specs on two operand templates) that is built and observed at the start of the world, re-swept later in shuffled order and probed entry by entry right after other operations. A guided layer screens every spec (six operand templates, also executed in a perturbed context and evaluated) for writes to pre-existing nodes and runs polluter x victim histories (same-family victims first), each divergence confirmed in a pristine fork.",
        note="compares constants only (loads stay symbolic); trusts fork() to give the post-import state; 16 listed write sites (signedness flag / armv7 decode mode on process-global objects) are undone at step end - a carve-out that masks changes at those sites only - and each is replayed without undo as a KNOWN-FINDING witness"),
    "C11": dict(engine="decsim", level="exploration", ref="3.4",
        technique="deterministic simulation with fault injection: seeded decode-call histories with truncated fetch windows, rejections and injected setup-function faults vs. a memoryless reference decoder, the first occurrence of the same call in the process, and pristine forked processes (single calls, and the world's distinct calls replayed in another order); decoder-tree-guided inputs; exhaustive 2-call histories over a per-ISA pool",
        text="Histories of decode calls (valid, prefixed, truncated at every length, undecodable, natural and injected setup failures incl. MemoryError, decode-mode switches: ARM / Thumb / IT block / big-endian fetch, x86 32/16, x64 64/32/16) on the shared disassembler object of every importable ISA; each call's outcome must equal that of a never-called copy of the decoder and that of the first occurrence of the same call in this process (inputs of long ago are re-issued), sampled calls must equal a pristine forked process, up to 6000 distinct calls per world are replayed by one pristine process in hash order and must give the same outcomes, returned bytes must be a prefix of the call's input. Inputs include words accepted by two specs of one leaf of the decoder tree. The pair layer enumerates all ordered pairs of a per-ISA pool as 2-call histories.",
        note="reference decoder is a shallow copy of the shared decoder taken before its first call; fault trampolines wrap ispec.hook; sampling except for the stated pair pool"),
    "C13": dict(engine="heapsim_alg", level="exploration", ref="3.5",
        technique="deterministic simulation: shared-operand operation histories by several holders with injected aborts, published-value stability oracle, heap write barrier, pickle round trips",
        text="A pool of published expressions shared by several holders (pool, mapper, memory map, composites) is subjected to seeded histories of operator / simplify / eval / map (incl. maps derived by use/eval/assume, conditions) / memory / merge / compose operations and injected aborts; after every step every published expression must keep its width, tile correctly and denote the same values under fixed valuations, and every held map must keep its entries, memory and conditions; pickled copies must print, compare and evaluate identically.",
        note="denotation is measured with an independent walker plus amoco's own eval on constants; listed known write sites are undone at step end (carve-out), witnesses replay without undo"),
    "C18": dict(engine="cfgsim", level="exploration", ref="3.6",
        technique="deterministic simulation: seeded arrival orders and subsets of blocks into cfg.graph, partition/exactly-once/split-edge invariants after every insertion; stream invariants of linear sweep and block slicing",
        text="For code regions of every ISA with a usable loader, linear sweep / block construction invariants are checked and then seeded subsets of blocks are inserted into cfg.graph - a separate graph or the sweep object's own - in seeded arrival orders (with edges, re-insertions, re-sweeps and client-side node.cut followed by insertion of the cut-away block); after every insertion the support must be pairwise disjoint, contain every inserted instruction exactly once and carry a fall-through edge wherever a node was split.",
        note="reference block boundaries come from a 15-line independent computation over the swept instruction list; arrival order is the only adversary (no I/O seam)"),
    "C20": dict(engine="filesim", level="fault_enumeration", ref="3.7",
        technique="deterministic simulation with storage fault injection: SimFS seam under read_program, enumerated truncations and header-field boundary overwrites plus seeded corruption sequences (incl. grouped fields, checksum-valid HEX/SREC records), deterministic interpreter-event budget (sys.monitoring) and allocation bounds (tracemalloc peak, refused-allocation monitor)",
        text="read_program is run over an in-memory file system whose single file is a fault sequence applied to a sample, a synthesised image or random data: every prefix truncation and every located header/table field x boundary value is enumerated (thorough), flips/zeroed/duplicated/dropped blocks are seeded; every 20th case is a canary (a valid sample identified again after the faulty history) and separate worlds identify generated valid HEX/SREC images of many sizes. It must return a recognised object or the raw fallback within a deterministic Python-call budget and allocation budget; any escaping exception is a violation, and a valid file must be claimed by its own format whatever was parsed before.",
        note="budgets (2e7 interpreter events; 512 MiB + 64 x size traced peak; address-space allowance current + 768 MiB) are the deciding bounds, the wall-clock watchdog only protects the harness (a world that stalls twice at the same case below its budget is reported as class stall); short reads/EIO are not injected because the property speaks of content only; one open finding (PE VirtualSize padding, 2 signature keys)"),
}

NA = {
    "C01": "pure function of (expression tree, valuation, complexity threshold): no schedule, clock, fault or surviving state is quantified; generating trees and evaluating them is property-based testing, not simulation (DESIGN.md 4)",
    "C02": "both routes (block map applied once, instructions one by one) are deterministic functions of (instruction list, state, conf); no order, fault or shared state in the statement (DESIGN.md 4); its history-dependent failure mode is owned by C10",
    "C03": "pure function of (format string, word, endianness); nothing for a simulator to own (DESIGN.md 4)",
    "C04": "pure function of (spec set, mode, bytes); the decision tree is built once at import (DESIGN.md 4)",
    "C05": "relates decodes of different inputs (prefix / extension of the same bytes); each decode is memoryless by C11, truncation as a fault is exercised there (DESIGN.md 4)",
    "C06": "pure function of (encoding, state); its oracle is a physical CPU / the ISA manual, not a simulation artefact (DESIGN.md 4)",
    "C07": "pure function of the byte string; its oracle is binutils / LLVM output, which are not present and are not simulation artefacts (DESIGN.md 4)",
    "C12": "pure per construction / rewrite path; width stability of published nodes is monitored inside C13's engine as a side invariant only (DESIGN.md 4)",
    "C14": "parsers on well-formed inputs are pure; the single sequential file read has no fault in the statement (DESIGN.md 4); malformed inputs are C20",
    "C15": "loader on well-formed inputs is a pure function of (file, page size); no fault, schedule or history quantified (DESIGN.md 4)",
    "C16": "struct layout / pack / unpack are pure functions of (definition, bytes, pointer size) (DESIGN.md 4)",
    "C17": "totality over all byte strings is fuzzing of a pure function, not simulation; its violations are used as a natural fault kind in C11 (DESIGN.md 4)",
    "C19": "pure function of two maps and a concrete state (DESIGN.md 4)",
}

def main():
    here = os.path.dirname(os.path.abspath(__file__))
    built = [p for p in sorted(CLAIMED) if os.path.exists(os.path.join(here, "amosim", "engines", CLAIMED[p]["engine"] + ".py"))]
    checks = []
    for p in built:
        c = CLAIMED[p]
        checks.append({
            "property_id": p,
            "quick_cmd": "./check %s --tier quick" % p,
            "thorough_cmd": "./check %s --tier thorough" % p,
            "evidence_file": "evidence/%s.json" % p,
            "replay_cmd_template": "./check replay {path}",
            "engine": c["engine"],
            "level_claimed": {"category": c["level"], "text": c["text"], "design_ref": "DESIGN.md " + c["ref"]},
            "level_note": c["note"],
            "technique": c["technique"],
        })
    na = [{"property_id": k, "reason": v} for k, v in sorted(NA.items())]
    for p in sorted(CLAIMED):
        if p not in built:
            na.append({"property_id": p, "reason": "simulation target per DESIGN.md %s, but its engine (%s) is not built yet in this tree; not claimed until it is" % (CLAIMED[p]["ref"], CLAIMED[p]["engine"])})
    engines = {}
    for p in built:
        engines.setdefault(CLAIMED[p]["engine"], []).append(p)
    m = {
        "version": 1,
        "setup_cmd": "./setup.sh",
        "hooks": {
            "guard": "AMOCO_VERIF",
            "enable": "no source hooks: every seam is monkeypatched from /verif/amosim when a zygote starts (DESIGN.md 2.3); checks import amoco from /repo's working tree",
            "baseline_off_cmd": "cd /repo && /venv/bin/python -m pytest -ra -q -p no:cacheprovider --timeout=900 --continue-on-collection-errors",
            "source_commits": [],
            "add_only": True,
        },
        "engines": [{"name": e, "path": "amosim/engines/%s.py" % e, "serves_properties": ps,
                     "kind_free_text": "deterministic simulation engine (seeded scheduler, explicit traces, forked worlds)"} for e, ps in sorted(engines.items())],
        "checks": checks,
        "not_applicable": sorted(na, key=lambda x: x["property_id"]),
        "notes": "fix: commits in /repo are listed in known_findings.txt (fixed: lines, each with a witness under replays/fixed/ that fails on the parent commit). Open findings: C09 T1 and T3, C10 write sites, C13 mem equality, C20 PE padding (witnesses under replays/known/). Exit codes: 0 held, 1 VIOLATION, 3 harness error. ./check selftest determinism|mutants prove the simulator; seeded/ holds the independently written breaking changes (sub-agents), all caught after the strengthening recorded in each meta.json; ./check selftest seeds re-runs them.",
    }
    with open(os.path.join(here, "MANIFEST.json"), "w") as f:
        json.dump(m, f, indent=1)
    print("MANIFEST: %d checks, %d not_applicable" % (len(checks), len(na)))

if __name__ == "__main__":
    main()
