from amoco.system.memory import MemoryZone, MemoryMap
from amoco.cas.expressions import *
a=MemoryMap(); b=MemoryMap()
a.write(0, b'AAAAAAAA'); b.write(2, b'BB')
r=reg('r',32)
b.write(10, r)
a.merge(b)
print(a.read(0,16))
a.write(3, b'C')   # write into a at location where b's mo object was inserted
print('a',a.read(0,16)); print('b',b.read(0,16))
a.write(11, b'Z')
print('a',a.read(0,16)); print('b',b.read(0,16))
# symbolic zone shared
p=reg('p',32)
a=MemoryMap(); b=MemoryMap()
b.write(ptr(p,disp=4), b'XY')
a.merge(b)
a.write(ptr(p,disp=5), b'Q')
print('b after a write', b.read(ptr(p,disp=4),2), 'a', a.read(ptr(p,disp=4),2))
# shift
z=MemoryZone(); z.write(5,b'abc'); z.write(10,r); z.shift(3); print(z.read(0,20))
z.shift(-8); print(z.read(0,20), z.locate(0))
