import sys, importlib, random, collections
from gen import *
for isa in sys.argv[1:]:
    cpu=importlib.import_module(isa); d=cpu.disassemble
    S=all_specs(d); rng=random.Random(1); ok=0; n=0; exc=0; mis=0
    for s in S:
        for k in range(3):
            b=enc(s,rng,d.endian()); n+=1
            try:
                d._disassembler__i=None
                i=d(b)
                if i is not None:
                    ok+=1
                    if i.spec is not s: mis+=1
            except Exception as e: exc+=1
    print(isa,len(S),'specs',n,'tries ok',ok,'other-spec',mis,'exc',exc)
