import random, sys, traceback, collections
import amoco
from amoco.sa import lsweep
from amoco import cfg, code
from amoco.cas.expressions import cst
rng=random.Random(int(sys.argv[1]))
stats=collections.Counter(); ex=[]
d=open('/repo/tests/samples/x86/blocks.raw','rb').read()
sc=(b"\xeb\x16\x5e\x31\xd2\x52\x56\x89\xe1\x89\xf3\x31\xc0\xb0\x0b\xcd\x80\x31\xdb\x31\xc0\x40\xcd\x80\xe8\xe5\xff\xff\xff\x2f\x62\x69\x6e\x2f\x73\x68")
for run in range(int(sys.argv[2])):
    src = d[rng.randint(0,len(d)-200):][:rng.randint(20,150)] if rng.random()<0.7 else sc
    p=amoco.load_program(src); p.use_x86()
    z=lsweep(p)
    instrs=list(z.sequence(cst(0,32)))
    if len(instrs)<3: continue
    # consecutive
    a=0
    for i in instrs:
        assert i.address.v==a and i.length>0; a+=i.length
    bounds=[i.address.v for i in instrs]
    end={}
    # reference: block from start s
    def refblock(s):
        k=bounds.index(s); out=[]
        while k<len(instrs):
            out.append(instrs[k])
            if instrs[k].type==2: break   # control flow
            k+=1
        return out
    starts=rng.sample(bounds, rng.randint(1,min(8,len(bounds))))
    G=cfg.graph()
    inserted=set()
    hist=[]
    try:
        for s in starts:
            b=z.getblock(s)
            rb=refblock(s)
            assert [i.address.v for i in b.instr]==[i.address.v for i in rb], ('getblock',s)
            assert b.raw()==b''.join(i.bytes for i in rb) and b.support==(b.instr[0].address, b.instr[0].address+len(b.raw()))
            for i in rb: inserted.add(i.address.v)
            G.add_vertex(cfg.node(b)); hist.append(s)
            # invariant: support nodes disjoint, cover inserted exactly once
            cov=collections.Counter()
            nodes=[mo.data.val for mo in G.support._map]
            for mo in G.support._map:
                n=mo.data.val
                assert mo.vaddr==n.data.address, ('mo addr',mo.vaddr,n.data.address)
                for i in n.data.instr: cov[i.address.v]+=1
            assert set(cov)==inserted and all(v==1 for v in cov.values()), ('cover',sorted(set(cov)^inserted),[k for k,v in cov.items() if v>1], G.overlay is not None)
            # graph vertices == support nodes
            V=set(id(v) for v in G.V()); assert V==set(id(n) for n in nodes), ('V vs support',len(V),len(nodes))
        stats['ok']+=1
        # edges for splits: consecutive nodes within same basic block
        nodes=sorted(nodes,key=lambda n:n.data.address.v)
        for n1,n2 in zip(nodes,nodes[1:]):
            last=n1.data.instr[-1]
            if last.type!=2 and last.address.v+last.length==n2.data.address.v:
                if n1.e_to(n2) is None: stats['missing-fallthrough-edge']+=1; 
                else: stats['edge-ok']+=1
    except AssertionError as e:
        stats['FAIL:%s'%(e.args[0][0] if e.args and isinstance(e.args[0],tuple) else 'assert')]+=1
        if len(ex)<4: ex.append((hist,s,e.args,[hex(x) for x in bounds][:30]))
    except Exception as e:
        tb=traceback.extract_tb(e.__traceback__)[-1]
        stats[(type(e).__name__,tb.name,tb.lineno)]+=1
        if len(ex)<4: ex.append(traceback.format_exc(limit=-3))
print(stats)
for e in ex: print(e)
