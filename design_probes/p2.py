from amoco.cas.expressions import *
print(ltu(cst(0xffffffff,32), cst(1,32)), geu(cst(0xffffffff,32), cst(1,32)))
x=reg('x',32); y=reg('y',32)
from amoco.cas.mapper import mapper
e = oper(OP_LTU,x,y)
m=mapper(); m[x]=cst(0xffffffff,32); m[y]=cst(1,32)
print(e, m(e))
