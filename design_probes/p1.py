import struct
from amoco.arch.riscv import cpu_rv32i as cpu
from amoco.cas.mapper import mapper
from amoco.cas.expressions import *
def enc_r(f7,rs2,rs1,f3,rd,opc=0x33): return struct.pack('<I',(f7<<25)|(rs2<<20)|(rs1<<15)|(f3<<12)|(rd<<7)|opc)
slt = enc_r(0,3,2,2,1)   # slt x1,x2,x3
sra = enc_r(0x20,3,2,5,4) # sra x4,x2,x3
def run(b, st):
    i = cpu.disassemble(b); i.address=cst(0,32)
    m = mapper(); i(m)
    s = mapper()
    for k,v in st.items(): s[cpu.x[k]] = cst(v,32)
    r = s >> m
    return i, m, r
st={2:0xffffffff,3:1}
i,m,r = run(slt,st); print(i, '|', r[cpu.x[1]], [x.sf for x in i.operands])
i2,m2,r2 = run(sra,st); print(i2,'|', r2[cpu.x[4]],[x.sf for x in i2.operands])
i,m3,r = run(slt,st); print(i, '|', r[cpu.x[1]], [x.sf for x in i.operands])
# old map re-evaluated
s = mapper()
for k,v in st.items(): s[cpu.x[k]] = cst(v,32)
print('old map re-eval', (s>>m)[cpu.x[1]])
