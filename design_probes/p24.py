import sys, time, collections, traceback, random, signal, os
from amoco.system.core import read_program
S='/repo/tests/samples/'
f=sys.argv[1]; rng=random.Random(int(sys.argv[2])); N=int(sys.argv[3])
class TO(BaseException): pass
def h(*a): raise TO()
signal.signal(signal.SIGALRM,h)
d0=open(S+f,'rb').read()
res=collections.Counter(); ex={}
hdr=min(len(d0),4096)
for it in range(N):
    d=bytearray(d0)
    for _ in range(rng.randint(1,4)):
        k=rng.random()
        if len(d)==0: break
        off=rng.randrange(min(hdr,len(d))) if rng.random()<0.8 else rng.randrange(len(d))
        if k<0.4: d[off]^=1<<rng.randrange(8)
        elif k<0.7: d[off]=rng.choice((0,0xff,0x7f,0x80,1))
        elif k<0.85:
            n=rng.choice((2,4,8)); d[off:off+n]=rng.choice((b'\xff'*n,b'\0'*n,(len(d0)).to_bytes(8,'little')[:n]))
        else: d=d[:rng.randrange(len(d))] or d
    d=bytes(d)
    try:
        signal.alarm(5); p=read_program(d); signal.alarm(0)
        res[('ret',type(p).__name__)]+=1
    except BaseException as e:
        signal.alarm(0)
        tbs=[t for t in traceback.extract_tb(e.__traceback__) if '/repo/amoco' in t.filename]
        tb=tbs[-1] if tbs else traceback.extract_tb(e.__traceback__)[-1]
        k=('EXC',type(e).__name__,tb.filename.split('amoco/')[-1],tb.name)
        res[k]+=1; ex.setdefault(k,d)
print(f)
for k,v in sorted(res.items(), key=str): print('  ',k,v)
