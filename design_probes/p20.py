import random, sys, traceback, collections
from amoco.system.memory import MemoryZone, MemoryMap
from amoco.cas.expressions import *
rng=random.Random(int(sys.argv[1]))
# independent evaluator
def ev(e,val):
    if e._is_cst: return e.v & ((1<<e.size)-1)
    if e._is_slc: return (ev(e.x,val)>>e.pos) & ((1<<e.size)-1)
    if e._is_reg: return val[e.ref] & ((1<<e.size)-1)
    if e._is_cmp:
        r=0
        for (a,b),p in e.parts.items(): r|= ev(p,val)<<a
        return r
    if e._is_eqn:
        if e.op.unary:
            x=ev(e.r,val); m=(1<<e.size)-1
            return {'~':~x,'-':-x}[e.op.symbol]&m
        l=ev(e.l,val); r=ev(e.r,val); m=(1<<e.size)-1
        return {'+':l+r,'-':l-r,'^':l^r,'&':l&r,'|':l|r,'*':l*r}[e.op.symbol]&m
    raise TypeError(e)
def tobytes(v,n,en): return list(v.to_bytes(n,'little' if en==1 else 'big'))
cnt=[0]
def fresh(n):
    cnt[0]+=1; return reg('w%d'%cnt[0],n*8)
def mkval(n):
    k=rng.random()
    if k<0.5: return fresh(n)
    if k<0.7 and n>=2:
        a=rng.randint(1,n-1); return composer([fresh(a), fresh(n-a)])
    if k<0.85: return fresh(n)^fresh(n)
    big=fresh(n+2); return big[8:8+n*8]
stats=collections.Counter(); ex=[]
P=reg('p',32)
def addr(zone,a):
    if zone is None:
        return a if rng.random()<.5 else cst(a,32)
    return ptr(zone,disp=a)
for run in range(int(sys.argv[2])):
    M=MemoryMap(); model={}; others=[]  # (map, model)
    hist=[]
    def check(M,model,tag):
        for zone in (None,P):
            ra=rng.randint(0,60); rl=rng.randint(1,16)
            try: res=M.read(addr(zone,ra),rl)
            except MemoryError:
                res=[exp(rl*8)]
            vals=[{},{}]
            out=[[],[]]
            for p in res:
                if isinstance(p,(bytes,bytearray)):
                    for o in out: o.extend(p)
                else:
                    assert p.size%8==0
                    L=p.size//8
                    if not p._is_def:
                        for o in out: o.extend([None]*L)
                    else:
                        for vi in range(2):
                            V=VAL[vi]
                            # endianness of the chunk is the writer's: find from model at this address
                            m=model.get((str(zone),ra+len(out[vi])))
                            en=m[3] if m and m[0]=='e' else 1
                            out[vi].extend(tobytes(ev(p,V),L,en))
            for vi in range(2):
                assert len(out[vi])==rl,(len(out[vi]),rl)
                for i in range(rl):
                    m=model.get((str(zone),ra+i))
                    if m is None: want=None
                    elif m[0]=='b': want=m[1]
                    else: want=tobytes(ev(m[1],VAL[vi]),m[1].size//8,m[3])[m[2]]
                    if out[vi][i]!=want:
                        raise AssertionError((tag,str(zone),ra,rl,i,out[vi][i],want))
    try:
        for step in range(rng.randint(1,14)):
            zone=rng.choice((None,None,P)); a=rng.randint(0,50); k=rng.random()
            if k<0.3:
                d=bytes(rng.randrange(256) for _ in range(rng.randint(1,8)))
                M.write(addr(zone,a),d); hist.append(('wb',str(zone),a,d.hex()))
                for i,x in enumerate(d): model[(str(zone),a+i)]=('b',x)
            elif k<0.4:
                n=rng.randint(1,8); v=rng.getrandbits(n*8); en=rng.choice((1,-1))
                M.write(addr(zone,a),cst(v,n*8),en); hist.append(('wc',str(zone),a,hex(v),n,en))
                for i,x in enumerate(tobytes(v,n,en)): model[(str(zone),a+i)]=('b',x)
            elif k<0.75:
                n=rng.randint(1,8); e=mkval(n); en=rng.choice((1,-1))
                M.write(addr(zone,a),e,en); hist.append(('we',str(zone),a,str(e),en))
                for i in range(n): model[(str(zone),a+i)]=('e',e,i,en)
            elif k<0.82: M.restruct(); hist.append(('restruct',))
            elif k<0.9:
                others.append((M,dict(model))); M=M.copy(); hist.append(('copy',))
            elif k<0.95:
                off=rng.randint(-3,5)
                z=M._zones.get(zone)
                if z is not None and (zone is not None or all(mo.vaddr+off>=0 for mo in z._map)):
                    z.shift(off); hist.append(('shift',str(zone),off))
                    model={ (zz,aa+off if zz==str(zone) else aa):v for (zz,aa),v in model.items()}
            else:
                # merge with small other
                O=MemoryMap(); om={}
                for _ in range(rng.randint(1,3)):
                    zz=rng.choice((None,P)); aa=rng.randint(0,50); d=bytes(rng.randrange(256) for _ in range(rng.randint(1,6)))
                    O.write(addr(zz,aa),d)
                    for i,x in enumerate(d): om[(str(zz),aa+i)]=('b',x)
                M.merge(O); model.update(om); hist.append(('merge',))
            # valuations
            names=['w%d'%i for i in range(1,cnt[0]+1)]
            VAL=[{n: rng.getrandbits(128) for n in names},{n: rng.getrandbits(128) for n in names}]
            # evaluator masks by size; reg value must be masked:
            class V(dict):
                pass
            for vi in range(2):
                for n in names: pass
            check(M,model,'main')
            for (OM,omodel) in others: check(OM,omodel,'orig-after-copy')
        stats['ok']+=1
    except AssertionError as e:
        stats['MISMATCH:'+str(e.args[0][0])]+=1
        if len(ex)<4: ex.append((hist,e.args))
    except Exception as e:
        tb=traceback.extract_tb(e.__traceback__)[-1]
        stats[(type(e).__name__,tb.name,tb.lineno)]+=1
        if len(ex)<4: ex.append((hist,traceback.format_exc(limit=-3)))
print(stats)
for e in ex:
    for x in e: print(x)
    print('--')
