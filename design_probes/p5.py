import random, sys, traceback, collections
from amoco.system.memory import MemoryZone, MemoryMap
from amoco.cas.expressions import *
def flat(res, n):
    out=[]
    for p in res:
        if isinstance(p,(bytes,bytearray)):
            out.extend(('b',x) for x in p)
        else:
            assert p.size%8==0, p
            L=p.size//8
            if not p._is_def: out.extend([None]*L)
            else:
                out.extend(('e',str(p),k) for k in range(L))
    return out
def bytes_of_exp(e, endian):
    # descriptor per memory byte (ascending address): for endian=1 byte k = e[8k:8k+8]
    L=e.size//8
    r=[]
    for k in range(L):
        kk = k if endian==1 else L-1-k
        r.append(('x',str(e),kk))
    return r
def flat2(res):
    # flatten to per-byte by slicing each exp into bytes little-endian-agnostic: use p.bytes(k,k+1,endian?) unknown -> we record stored endianness in model by comparing string of byte-slice
    pass
rng=random.Random(int(sys.argv[1]))
regs=[reg('r%d'%i,s) for i,s in enumerate((8,16,32,64,32))]
fails=collections.Counter(); ex=None
for run in range(int(sys.argv[2])):
    z=MemoryZone(); model={}
    hist=[]
    try:
        for step in range(rng.randint(1,12)):
            a=rng.randint(0,40)
            k=rng.random()
            if k<0.4:
                d=bytes(rng.randrange(256) for _ in range(rng.randint(1,8)))
                z.write(a,d); hist.append(('wb',a,d))
                for i,x in enumerate(d): model[a+i]=('b',x)
            elif k<0.8:
                r=rng.choice(regs); en=rng.choice((1,-1))
                z.write(a,r,en); hist.append(('we',a,str(r),en))
                L=r.size//8
                for i in range(L):
                    kk=i if en==1 else L-1-i
                    model[a+i]=('e',str(r),kk,en)
            elif k<0.9:
                z.restruct(); hist.append(('restruct',))
            else:
                z=z.copy(); hist.append(('copy',))
            # read check
            ra=rng.randint(0,45); rl=rng.randint(1,12)
            res=z.read(ra,rl)
            # flatten
            out=[]
            for p in res:
                if isinstance(p,(bytes,bytearray)): out.extend(('b',x) for x in p)
                else:
                    L=p.size//8
                    if not p._is_def: out.extend([None]*L)
                    else:
                        # p is an exp: either reg or slc of reg
                        if p._is_slc: base,pos=p.x,p.pos
                        else: base,pos=p,0
                        assert pos%8==0
                        # we don't know endian from p; get from model at that address
                        for j in range(L):
                            out.append(('E',str(base),pos//8, L, j))
            assert len(out)==rl,(len(out),rl)
            exp_=[]
            for i in range(rl): exp_.append(model.get(ra+i))
            # compare
            j=0
            ok=True
            for i in range(rl):
                m=exp_[i]; o=out[i]
                if m is None or m[0]=='b':
                    if m!=o: ok=False
                else:
                    if o is None or o[0]!='E' or o[1]!=m[1]: ok=False
                    else:
                        _,name,pos8,L,j=o
                        en=m[3]
                        # byte j (ascending addr) of a chunk covering bits [pos8*8, (pos8+L)*8): little: index pos8+j ; big: pos8+L-1-j
                        idx = pos8+j if en==1 else pos8+L-1-j
                        if idx!=m[2]: ok=False
            if not ok:
                fails['mismatch']+=1
                if ex is None: ex=(hist,ra,rl,out,exp_,str(z))
                break
    except Exception as e:
        tb=traceback.extract_tb(e.__traceback__)[-1]
        fails[(type(e).__name__,tb.name,tb.lineno)]+=1
        if ex is None: ex=(hist,traceback.format_exc())
print(fails)
if ex:
    for x in ex: print(x)
