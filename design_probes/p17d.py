# prototype: C10 isolation oracle with write-barrier undo of sf writes
import sys, os, random, importlib, pickle, traceback, collections, hashlib, gc
import amoco.cas.expressions as E
from amoco.cas.expressions import *
from amoco.cas.mapper import mapper, conf
ISA=sys.argv[1]; SEED=int(sys.argv[2]); NRUN=int(sys.argv[3]); UNDO=sys.argv[4]  # 'none' | 'sf' | 'all'
cpu=importlib.import_module(ISA)
_osa=object.__setattr__
BORN={}; KEEP=[]; STEP=[0]; WLOG=[]
def site():
    f=sys._getframe(2)
    while f and f.f_code.co_name in('__setattr__','spy'): f=f.f_back
    return '%s:%s'%(f.f_code.co_filename.split('amoco/')[-1], f.f_code.co_qualname)
def spy(self,a,v):
    b=BORN.get(id(self))
    if b is None:
        BORN[id(self)]=STEP[0]; KEEP.append(self)
    elif b<STEP[0]:
        try: old=getattr(self,a)
        except AttributeError: old=WLOG  # sentinel
        if old is not v and (isinstance(old,exp) or isinstance(v,exp) or old!=v):
            WLOG.append((self,a,old,site()))
    _osa(self,a,v)
E.exp.__setattr__=spy
for o in gc.get_objects():
    if isinstance(o,exp): BORN[id(o)]=-1
def end_step():
    sites=[(type(o).__name__,a,s) for o,a,old,s in WLOG]
    if UNDO!='none':
        for o,a,old,s in reversed(WLOG):
            if UNDO=='all' or a=='sf':
                if old is WLOG: 
                    try: object.__delattr__(o,a)
                    except Exception: pass
                else: _osa(o,a,old)
    del WLOG[:]
    STEP[0]+=1
    return sites
def concrete_state(m, salt):
    s=mapper()
    for l in set(str(x) for x in m.inputs()): pass
    regs={}
    for x in m.inputs():
        for r in E.symbols_of(x):
            regs[str(r)]=r
    for l,v in m:
        for r in E.symbols_of(l)+E.symbols_of(v): regs[str(r)]=r
    for name,r in sorted(regs.items()):
        if r._is_ext or not r.size: continue
        h=int(hashlib.sha256(('%s|%s'%(name,salt)).encode()).hexdigest(),16)
        sel=h%7; h>>=8
        if sel==0: h=0
        elif sel==1: h=1
        elif sel==2: h=(1<<r.size)-1
        elif sel==3: h=1<<(r.size-1)
        elif sel==4: h=(1<<(r.size-1))-1
        try: s[r]=cst(h,r.size)
        except Exception: pass
    return s
def observe(instrs, salts=(1,2,3,4)):
    m=mapper(instrs)
    out=[]
    for salt in salts:
        s=concrete_state(m,salt)
        r=s>>m
        for l,v in r:
            v=v.simplify()
            if v._is_cst: out.append((salt,str(l),v.size,v.v))
            else: out.append((salt,str(l),v.size,None))
    return out
from gen import all_specs
SPECS=all_specs(cpu.disassemble)
SEM=[s for s in SPECS if not s.pfx]
def gen_block(rng):
    d=cpu.disassemble
    T=TEMPLATE[0]
    for _ in range(50):
        n=rng.randint(1,3); ins=[]; ok=True
        for k in range(n):
            s=rng.choice(SEM); nb=s.fix.size
            t=T ^ (rng.getrandbits(128) if rng.random()<0.3 else 0)
            w=s.fix.ival | (t & ~s.mask.ival & ((1<<nb)-1))
            b=w.to_bytes(nb//8,'little')
            if d.endian()==-1: b=b[::-1]
            b+=bytes(rng.randrange(256) for _ in range(8))
            try:
                d._disassembler__i=None
                i=d(b)
                if i is not None:
                    i.address=cst(0x1000,cpu.PC().size); mm=mapper(); i(mm)
            except Exception: i=None
            if i is None: ok=False; break
            ins.append(bytes(i.bytes))
        if ok: return ins
    return None
TEMPLATE=[0]
def gen_block_old(rng):
    d=cpu.disassemble
    for _ in range(50):
        n=rng.randint(1,3); ins=[]; ok=True
        for k in range(n):
            b=bytes(rng.randrange(256) for _ in range(d.maxlen+2))
            try:
                d._disassembler__i=None
                i=d(b)
            except Exception: i=None
            if i is None: ok=False; break
            ins.append(bytes(i.bytes))
        if ok: return ins
    return None
def decode(bs, addr=0x1000):
    out=[]
    for b in bs:
        cpu.disassemble._disassembler__i=None
        i=cpu.disassemble(b+b'\0'*4)
        psz=cpu.PC().size if hasattr(cpu,'PC') else 32
        i.address=cst(addr,psz); addr+=i.length; out.append(i)
    return out
def pristine(bs):
    r,w=os.pipe(); pid=os.fork()
    if pid==0:
        os.close(r)
        try: res=('ok',observe(decode(bs)))
        except Exception as e: res=('exc',type(e).__name__+':'+traceback.format_exc(limit=-2).replace(chr(10),' | ')[-300:])
        os.write(w,pickle.dumps(res)); os._exit(0)
    os.close(w); data=b''
    while True:
        c=os.read(r,65536)
        if not c: break
        data+=c
    os.close(r); os.waitpid(pid,0)
    return pickle.loads(data)
rng=random.Random(SEED)
stats=collections.Counter(); sigs=collections.Counter(); ex=[]; DIVS=collections.Counter()
cache={}
for run in range(NRUN):
    # world = fork
    TEMPLATE[0]=rng.getrandbits(128)
    nb=rng.randint(2,5); gseed=rng.getrandbits(32)
    r_,w_=os.pipe(); pid_=os.fork()
    if pid_==0:
        os.close(r_); g=random.Random(gseed)
        bl=[b for b in (gen_block(g) for _ in range(nb)) if b]
        os.write(w_,pickle.dumps(bl)); os._exit(0)
    os.close(w_); dd=b''
    while True:
        c=os.read(r_,65536)
        if not c: break
        dd+=c
    os.close(r_); os.waitpid(pid_,0); blocks=pickle.loads(dd)
    for b in blocks:
        k=tuple(b)
        if k not in cache: cache[k]=pristine(b)
    if not blocks: continue
    order=[rng.randrange(len(blocks)) for _ in range(rng.randint(3,8))]
    r,w=os.pipe(); pid=os.fork()
    if pid==0:
        os.close(r); out=[]
        STEP[0]=1
        maps={}
        for j,bi in enumerate(order):
            bs=blocks[bi]
            try:
                ins=decode(bs); s1=end_step()
                obs=observe(ins); s2=end_step()
                res=('ok',obs)
            except Exception as e:
                res=('exc',type(e).__name__+':'+traceback.format_exc(limit=-2).replace(chr(10),' | ')[-300:]); s1=s2=[]; end_step()
            out.append((bi,res,s1+s2))
        os.write(w,pickle.dumps(out)); os._exit(0)
    os.close(w); data=b''
    while True:
        c=os.read(r,65536)
        if not c: break
        data+=c
    os.close(r); os.waitpid(pid,0)
    out=pickle.loads(data)
    seen_sites=[]
    for j,(bi,res,sites) in enumerate(out):
        ref=cache[tuple(blocks[bi])]
        if res[0]!=ref[0]:
            stats['kind-differs']+=1
            if len(ex)<6: ex.append(('KIND',[x.hex() for x in blocks[bi]],res[:2] if res[0]=='exc' else 'ok',ref[:2] if ref[0]=='exc' else 'ok',[ [y.hex() for y in blocks[o]] for o in order[:j]]))
        elif res[0]=='ok':
            a=dict(((x[0],x[1]),x[2:]) for x in res[1]); b=dict(((x[0],x[1]),x[2:]) for x in ref[1])
            bad=[k for k in a if k in b and a[k][1] is not None and b[k][1] is not None and a[k]!=b[k]]
            if set(a)!=set(b): stats['locs-differ']+=1
            if bad:
                stats['DIVERGE']+=1
                prior=set()
                for jj in range(j+1):
                    for ss in out[jj][2]: prior.add(ss)
                DIVS[frozenset(x for x in prior if x[1]=='sf' and 'signextend' not in x[2])]+=1
                if len(ex)<5: ex.append(([x.hex() for x in blocks[bi]],bad[:2],[a[k] for k in bad[:2]],[b[k] for k in bad[:2]],[ [y.hex() for y in blocks[o]] for o in order[:j]]))
            else: stats['same']+=1
        else: stats['exc-same']+=1
        for s in sites: sigs[s]+=1
print(ISA,UNDO,dict(stats))
for k,v in DIVS.most_common(12): print('  DIVSITES',v,sorted(k))
for e in ex: print('  EX',e)
