import random, sys, traceback, collections, importlib
from amoco.cas.mapper import mapper, conf
from amoco.cas.expressions import *
import amoco.cas.expressions as E
CPUS=['amoco.arch.x86.cpu_x86','amoco.arch.x64.cpu_x64','amoco.arch.arm.cpu_armv7','amoco.arch.arm.cpu_armv8','amoco.arch.avr.cpu','amoco.arch.eBPF.cpu','amoco.arch.mips.cpu_r3000','amoco.arch.mips.cpu_r3000LE','amoco.arch.msp430.cpu','amoco.arch.pic.cpu_pic18f46k22','amoco.arch.ppc32.cpu','amoco.arch.ppc32.cpu_e200','amoco.arch.riscv.cpu_rv32i','amoco.arch.riscv.cpu_rv64i','amoco.arch.sparc.cpu_v8','amoco.arch.superh.cpu_sh2','amoco.arch.superh.cpu_sh4','amoco.arch.tricore.cpu','amoco.arch.v850.cpu_v850e2s','amoco.arch.w65c02.cpu','amoco.arch.z80.cpu_gb','amoco.arch.z80.cpu_z80','amoco.arch.dwarf.cpu','amoco.arch.wasm.cpu','amoco.arch.eBPF.cpu_bpf']
rng=random.Random(int(sys.argv[1]))
N=int(sys.argv[2])
def snap_globals(mod):
    # structural snapshot of all exp objects reachable from module globals (shallow: registers and their sf/etc)
    S={}
    seen=set()
    def walk(o,path,depth):
        if id(o) in seen or depth>4: return
        if isinstance(o,exp):
            seen.add(id(o))
            try: S[path]=(type(o).__name__,o.size,o.sf,str(o),getattr(o,'etype',None))
            except Exception as x: S[path]=('ERR',type(x).__name__)
            for sl in ('x','l','r','tst','a','base','seg'):
                if hasattr(o,sl):
                    try: walk(getattr(o,sl),path+'.'+sl,depth+1)
                    except Exception: pass
            if isinstance(o,comp):
                for k,v in o.parts.items(): walk(v,path+'.parts%s'%(k,),depth+1)
        elif isinstance(o,(list,tuple)):
            seen.add(id(o))
            for i,x in enumerate(o): walk(x,'%s[%d]'%(path,i),depth+1)
        elif isinstance(o,dict):
            seen.add(id(o))
            for k,x in o.items():
                if isinstance(x,(int,str,bool,type(None))): S['%s[%r]'%(path,k)]=x
                else: walk(x,'%s[%r]'%(path,k),depth+1)
    for k,v in list(vars(mod).items()):
        if k.startswith('__'): continue
        if isinstance(v,(exp,list,tuple,dict)): walk(v,k,0)
    S['regtype.cur']=E.regtype.cur
    return S
for cn in CPUS:
    try: cpu=importlib.import_module(cn)
    except Exception as e: print(cn,'IMPORT FAIL',type(e).__name__,e); continue
    d=cpu.disassemble
    stats=collections.Counter(); poll=collections.Counter(); excs=collections.Counter()
    base=snap_globals(cpu)
    for it in range(N):
        L=rng.randint(1,max(4,d.maxlen))
        b=bytes(rng.randrange(256) for _ in range(d.maxlen+4))
        try:
            i=d(b)
        except Exception as e:
            tb=traceback.extract_tb(e.__traceback__)[-1]
            excs[('dec',type(e).__name__,tb.name)]+=1; d._disassembler__i=None; i=None
        s1=snap_globals(cpu)
        if s1!=base:
            diff=[(k,base.get(k),s1.get(k)) for k in set(base)|set(s1) if base.get(k)!=s1.get(k)]
            poll[('decode',i.mnemonic if i else None, i.spec.hook.__name__ if i else None, tuple(sorted((k.split('.')[0].split('[')[0] if 0 else k, str(a)[:30],str(c)[:30]) for k,a,c in diff))[:2])]+=1
            base=s1
        if i is None: stats['none']+=1; continue
        stats['ok']+=1
        try:
            i.address=cst(0x1000,cpu.PC().size) if hasattr(cpu,'PC') else None
            m=mapper(); i(m)
        except Exception as e:
            tb=traceback.extract_tb(e.__traceback__)[-1]
            excs[('sem',i.mnemonic,type(e).__name__,tb.name)]+=1
        s2=snap_globals(cpu)
        if s2!=base:
            diff=[(k,base.get(k),s2.get(k)) for k in set(base)|set(s2) if base.get(k)!=s2.get(k)]
            poll[('exec',i.mnemonic, tuple(sorted((k, str(a)[:40],str(c)[:40]) for k,a,c in diff))[:2])]+=1
            base=s2
    print('==',cn,dict(stats),'exc kinds',len(excs),'polluters',len(poll))
    for k,v in excs.most_common(6): print('   EXC',k,v)
    for k,v in poll.most_common(8): print('   POL',k,v)
