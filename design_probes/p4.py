import random, collections, traceback, sys
from amoco.arch.core import disassembler
from amoco.arch.x86 import cpu_x86
from amoco.arch.x64 import cpu_x64
def fp(i):
    if i is None: return None
    return (bytes(i.bytes), i.mnemonic, tuple(str(o) for o in i.operands), tuple(sorted((k,str(v)) for k,v in i.misc.items() if v is not None)))
def call(d,b):
    try: return ('ok',fp(d(b)))
    except Exception as e:
        tb=traceback.extract_tb(e.__traceback__)[-1]
        return ('exc',type(e).__name__,tb.filename.split('/')[-1],tb.name)
rng=random.Random(int(sys.argv[1]))
exc=collections.Counter(); leaks=[]; n=0; div=0
pfx=[0xf0,0xf2,0xf3,0x26,0x2e,0x36,0x3e,0x64,0x65,0x66,0x67]+list(range(0x40,0x50))
for cpu,specs in ((cpu_x86,[cpu_x86.spec_ia32]),(cpu_x64,[cpu_x64.spec_ia32e])):
    sut=cpu.disassemble
    ref=disassembler(specs, iclass=sut.iclass); ref.maxlen=sut.maxlen
    prev=None
    for it in range(60000):
        k=rng.random()
        L=rng.randint(0,16)
        b=bytes(rng.choice(pfx) for _ in range(rng.randint(0,3)))+bytes(rng.randrange(256) for _ in range(L))
        if k<0.3: b=b[:rng.randint(0,len(b))]
        ref._disassembler__i=None
        expected=call(ref,b)
        got=call(sut,b)
        n+=1
        if got[0]=='exc': exc[(cpu.__name__.split('.')[-1],)+got[1:]]+=1
        if got!=expected:
            div+=1
            if len(leaks)<6: leaks.append((cpu.__name__,b.hex(),expected,got, prev))
        prev=(b.hex(),got)
    print(cpu.__name__, n, 'div',div)
for k,v in exc.most_common(): print(k,v)
for l in leaks: print(l)
