import time, sys, traceback, pickle
t=time.time()
import amoco.cas.expressions as E
from amoco.cas.expressions import *
from amoco.cas.mapper import mapper
from amoco.arch.x86 import cpu_x86 as cpu
print('import', time.time()-t)
LOG=[]; STEP=[0]; BORN={}; KEEP=[]
_osa=object.__setattr__
def site():
    f=sys._getframe(2)
    while f and '/verif' in f.f_code.co_filename: f=f.f_back
    # skip exp.__setattr__ wrappers of reg/slc
    while f and f.f_code.co_name=='__setattr__': f=f.f_back
    return '%s:%s'%(f.f_code.co_filename.split('amoco/')[-1], f.f_code.co_qualname)
def spy(self,a,v):
    b=BORN.get(id(self))
    if b is None:
        BORN[id(self)]=STEP[0]; KEEP.append(self)
    elif b<STEP[0]:
        try: old=getattr(self,a)
        except AttributeError: old='<unset>'
        if old is not v and old!=v if not isinstance(old,exp) else old is not v:
            LOG.append((STEP[0],type(self).__name__,a,site()))
    _osa(self,a,v)
E.exp.__setattr__=spy
# pre-existing: mark all live exps epoch -1
import gc
for o in gc.get_objects():
    if isinstance(o,exp): BORN[id(o)]=-1
STEP[0]=1
t=time.time()
for h in ('46','01c8','50','29c8','39c8','f7e1','f7f9','d1fe','0fafc1','8b4508','7405'):
    i=cpu.disassemble(bytes.fromhex(h)); i.address=cst(0,32)
    m=mapper(); i(m); STEP[0]+=1
print('t',time.time()-t, len(KEEP))
import collections
c=collections.Counter((x[1],x[2],x[3]) for x in LOG)
for k,v in c.most_common(): print(v,k)
# pickle still works?
x=cpu.eax+cpu.ebx
print(pickle.loads(pickle.dumps(x)), type(x).__setattr__)
