import random, sys, traceback, collections
import amoco
from amoco.sa import lsweep
from amoco import cfg, code
from amoco.cas.expressions import cst
from amoco.system.core import shellcode, DataIO
from amoco.system.raw import RawExec
from amoco.system import memory
from amoco.arch.x86 import cpu_x86
# simulate the planned fix: make mo.copy/setlen/trim harmless for dead computations
_orig_copy=memory.mo.copy
class _Dummy:
    def trim(self,*a): pass
    def setlen(self,*a): pass
if sys.argv[3]=='fix':
    memory.mo.copy=lambda self: _Dummy()
rng=random.Random(int(sys.argv[1]))
stats=collections.Counter(); ex=[]
d=open('/repo/tests/samples/x86/blocks.raw','rb').read()
for run in range(int(sys.argv[2])):
    src = d[rng.randint(0,len(d)-200):][:rng.randint(20,150)]
    p=RawExec(shellcode(DataIO(src)),cpu_x86)
    z=lsweep(p)
    instrs=list(z.sequence(cst(0,32)))
    if len(instrs)<3: continue
    bounds=[i.address.v for i in instrs]
    def refblock(s):
        k=bounds.index(s); out=[]
        while k<len(instrs):
            out.append(instrs[k])
            if instrs[k].type==2: break
            k+=1
        return out
    starts=rng.sample(bounds, rng.randint(1,min(10,len(bounds))))
    G=cfg.graph(); inserted=set(); hist=[]
    try:
        for s in starts:
            b=z.getblock(s); rb=refblock(s)
            assert [i.address.v for i in b.instr]==[i.address.v for i in rb], ('getblock',s)
            for i in rb: inserted.add(i.address.v)
            before=[(mo.vaddr, mo.data.val) for mo in G.support._map]
            nb=len(before)
            v=G.add_vertex(cfg.node(b)); hist.append(s)
            cov=collections.Counter()
            for mo in G.support._map:
                n=mo.data.val
                assert mo.vaddr==n.data.address.v, ('mo addr',mo.vaddr,n.data.address)
                assert len(n.data.instr)>0, ('empty node',)
                for i in n.data.instr: cov[i.address.v]+=1
            assert set(cov)==inserted and all(x==1 for x in cov.values()), ('cover',sorted(set(cov)^inserted),[k for k,x in cov.items() if x>1], G.overlay is not None)
            # split edge check: an existing node whose end moved earlier and new node starts there
            for (va,n) in before:
                if n in [mo.data.val for mo in G.support._map]:
                    pass
            if G.overlay is not None: stats['overlay']+=1
        # final partition equals model
        cuts=set(starts)
        segs=[]
        cur=None
        for i in instrs:
            a=i.address.v
            if a not in inserted: cur=None; continue
            if cur is None or a in cuts: cur=[a,a+i.length]; segs.append(cur)
            else: cur[1]=a+i.length
            if i.type==2: cur=None
        got=sorted((mo.vaddr, mo.vaddr+len(mo.data.val)) for mo in G.support._map)
        assert got==sorted(map(tuple,segs)), ('partition',got,segs)
        stats['ok']+=1
    except AssertionError as e:
        stats['FAIL:%s'%(e.args[0][0] if e.args and isinstance(e.args[0],tuple) else 'assert')]+=1
        if len(ex)<4: ex.append((hist,s,e.args))
    except Exception as e:
        tb=traceback.extract_tb(e.__traceback__)[-1]
        stats[(type(e).__name__,tb.name,tb.lineno)]+=1
        if len(ex)<4: ex.append((hist,s,traceback.format_exc(limit=-3)))
print(stats)
for e in ex: print(e)
