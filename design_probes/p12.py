import random, sys, traceback, collections
import amoco
from amoco.sa import lsweep
from amoco import cfg, code
from amoco.cas.expressions import cst
from amoco.system.core import shellcode, DataIO
from amoco.system.raw import RawExec
from amoco.arch.x86 import cpu_x86
rng=random.Random(int(sys.argv[1]))
d=open('/repo/tests/samples/x86/blocks.raw','rb').read()
found=0
for run in range(3000):
    src = d[rng.randint(0,len(d)-200):][:rng.randint(20,150)]
    p=RawExec(shellcode(DataIO(src)),cpu_x86)
    z=lsweep(p)
    instrs=list(z.sequence(cst(0,32)))
    if len(instrs)<3: continue
    bounds=[i.address.v for i in instrs]
    starts=rng.sample(bounds, rng.randint(1,min(4,len(bounds))))
    G=cfg.graph(); hist=[]
    try:
        for s in starts:
            b=z.getblock(s); hist.append((s,[i.address.v for i in b.instr][-1]+b.instr[-1].length))
            G.add_vertex(cfg.node(b))
    except AttributeError as e:
        print(hist, [ (i.address.v,i.type) for i in instrs]); traceback.print_exc(limit=-8); found+=1
        if found>=2: break
