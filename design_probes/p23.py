import struct, hashlib
from amoco.arch.riscv import cpu_rv32i as cpu
from amoco.cas.mapper import mapper
from amoco.cas.expressions import *
import amoco.cas.expressions as E
def enc_r(f7,rs2,rs1,f3,rd,opc=0x33): return struct.pack('<I',(f7<<25)|(rs2<<20)|(rs1<<15)|(f3<<12)|(rd<<7)|opc)
slt = enc_r(0,3,2,2,1); sra = enc_r(0x20,3,2,5,1)
def dec(b):
    i=cpu.disassemble(b+bytes(8)); i.address=cst(0x1000,32); return i
def observe(i):
    m=mapper([i]); out=[]
    for (a,b) in ((0xffffffff,1),(1,0xffffffff),(0x80000000,0x7fffffff)):
        s=mapper(); s[cpu.x[2]]=cst(a,32); s[cpu.x[3]]=cst(b,32)
        r=s>>m
        out.append([(str(l),v.v if v._is_cst else str(v)) for l,v in r if str(l)=='ra'])
    return out
print('pristine', observe(dec(slt)), [r.sf for r in cpu.x[1:4]])
ip=dec(sra); mm=mapper(); ip(mm); print('after sra sf:',[r.sf for r in cpu.x[1:4]])
print('hist    ', observe(dec(slt)), [r.sf for r in cpu.x[1:4]])
