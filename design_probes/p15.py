import time, os, sys, importlib, resource
t=time.time()
CPUS=['amoco.arch.x86.cpu_x86','amoco.arch.x64.cpu_x64','amoco.arch.arm.cpu_armv7','amoco.arch.arm.cpu_armv8','amoco.arch.eBPF.cpu','amoco.arch.mips.cpu_r3000','amoco.arch.mips.cpu_r3000LE','amoco.arch.msp430.cpu','amoco.arch.pic.cpu_pic18f46k22','amoco.arch.ppc32.cpu','amoco.arch.riscv.cpu_rv32i','amoco.arch.riscv.cpu_rv64i','amoco.arch.sparc.cpu_v8','amoco.arch.superh.cpu_sh2','amoco.arch.tricore.cpu','amoco.arch.v850.cpu_v850e2s','amoco.arch.w65c02.cpu','amoco.arch.z80.cpu_gb','amoco.arch.z80.cpu_z80','amoco.arch.dwarf.cpu','amoco.arch.wasm.cpu','amoco.arch.eBPF.cpu_bpf']
for c in CPUS:
    t1=time.time(); importlib.import_module(c); print(c, round(time.time()-t1,2))
print('total import',time.time()-t, resource.getrusage(resource.RUSAGE_SELF).ru_maxrss//1024,'MB')
t=time.time(); n=200
for k in range(n):
    r,w=os.pipe()
    pid=os.fork()
    if pid==0:
        os.close(r); os.write(w,b'ok'); os._exit(0)
    os.close(w); os.read(r,10); os.close(r); os.waitpid(pid,0)
print('fork rt ms',(time.time()-t)/n*1000)
