# pair sweep: polluter spec x victim spec, same operand template
import sys, os, random, importlib, pickle, traceback, collections, hashlib
from amoco.cas.expressions import *
import amoco.cas.expressions as E
from amoco.cas.mapper import mapper
from gen import all_specs
ISA=sys.argv[1]; K=int(sys.argv[2]); N=int(sys.argv[3])
cpu=importlib.import_module(ISA); d=cpu.disassemble
SPECS=[s for s in all_specs(d) if not s.pfx]
def enc(s,T,rng):
    nb=s.fix.size; w=s.fix.ival|(T & ~s.mask.ival & ((1<<nb)-1)); b=w.to_bytes(nb//8,'little')
    if d.endian()==-1: b=b[::-1]
    return b+bytes(8)
def dec(b):
    d._disassembler__i=None
    i=d(b)
    if i is None: return None
    i.address=cst(0x1000,cpu.PC().size); return i
def state(m,salt):
    s=mapper(); regs={}
    for l,v in m:
        for r in E.symbols_of(l)+E.symbols_of(v): regs[str(r)]=r
    for name,r in sorted(regs.items()):
        if r._is_ext or not r.size: continue
        h=int(hashlib.sha256(('%s|%s'%(name,salt)).encode()).hexdigest(),16); sel=h%6; h>>=8
        h=[0,1,(1<<r.size)-1,1<<(r.size-1),(1<<(r.size-1))-1,h][sel]
        try: s[r]=cst(h,r.size)
        except Exception: pass
    return s
def observe(i):
    m=mapper([i]); out=[]
    for salt in range(6):
        r=state(m,salt)>>m
        for l,v in r:
            v=v.simplify() if hasattr(v,'simplify') else v
            out.append((salt,str(l),v.size,v.v if v._is_cst else None))
    return out
def child(fn):
    r,w=os.pipe(); pid=os.fork()
    if pid==0:
        os.close(r)
        try: res=('ok',fn())
        except Exception as e: res=('exc',type(e).__name__)
        os.write(w,pickle.dumps(res)); os._exit(0)
    os.close(w); data=b''
    while True:
        c=os.read(r,1<<16)
        if not c: break
        data+=c
    os.close(r); os.waitpid(pid,0); return pickle.loads(data)
rng=random.Random(7)
found=collections.Counter(); ex={}
n=0
pairs=[(p,v) for p in range(len(SPECS)) for v in range(len(SPECS))]
pairs=[pv for idx,pv in enumerate(pairs) if idx%N==K]
for (pi,vi) in pairs:
    T=rng.getrandbits(64)
    bp=enc(SPECS[pi],T,rng); bv=enc(SPECS[vi],T,rng)
    def pristine():
        i=dec(bv); return None if i is None else (i.mnemonic,observe(i))
    def hist():
        try: ip=dec(bp)
        except Exception: ip=None
        d._disassembler__i=None
        if ip is not None:
            try: mm=mapper(); ip(mm)
            except Exception: pass
        i=dec(bv); return None if i is None else (i.mnemonic,observe(i))
    a=child(pristine); b=child(hist); n+=1
    if a!=b:
        if a[0]=='ok' and b[0]=='ok' and a[1] and b[1]:
            da=dict(((x[0],x[1]),x[2:]) for x in a[1][1]); db=dict(((x[0],x[1]),x[2:]) for x in b[1][1])
            bad=[k for k in da if k in db and da[k][1] is not None and db[k][1] is not None and da[k]!=db[k]]
            if not bad and set(da)==set(db): continue
        try: ip=dec(bp)
        except Exception: ip=None
        key=(ip.mnemonic if ip else None, a[1][0] if a[0]=='ok' and a[1] else a[1], 'kind' if a[0]!=b[0] else 'value')
        found[key]+=1; ex.setdefault(key,(bp.hex(),bv.hex()))
print(ISA,K,'pairs',n,'divergent',sum(found.values()))
for k,v in found.most_common(): print('  ',k,v,ex[k])
