import sys, traceback, collections
from amoco.cas.mapper import mapper
from amoco.cas.expressions import *
import amoco.cas.expressions as E
from amoco.arch.x86 import cpu_x86 as cpu
sites=collections.Counter()
orig=E.exp.__setattr__
def spy(self,a,v):
    if a=='sf' and hasattr(self,'sf') and self.sf!=v and getattr(self,'ref',None):
        st=traceback.extract_stack(limit=6)[:-1]
        sites[' <- '.join('%s:%s:%d'%(f.filename.split('/')[-1],f.name,f.lineno) for f in reversed(st[-4:]))]+=1
    object.__setattr__(self,a,v) if False else orig(self,a,v)
E.reg.__setattr__=lambda self,a,v: (spy(self,a,v))
E.slc.__setattr__=lambda self,a,v: (spy(self,a,v))
for h in ('46','01c8','50','29c8','39c8','f7e1','f7f9','d1fe','0fafc1'):
    i=cpu.disassemble(bytes.fromhex(h)); i.address=cst(0,32)
    m=mapper(); i(m)
    print(i, [ (r.ref,r.sf) for r in (cpu.eax,cpu.ecx,cpu.esi,cpu.esp)])
for k,v in sites.most_common(): print(v,k)
