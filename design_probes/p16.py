import sys, time, tracemalloc, os
from amoco.system.core import read_program
S='/repo/tests/samples/'
files=[os.path.join(r,f)[len(S):] for r,d,fs in os.walk(S) for f in fs]
for f in sorted(files):
    d=open(S+f,'rb').read()
    n=[0]
    def prof(fr,ev,arg):
        if ev=='call': n[0]+=1
    tracemalloc.start()
    sys.setprofile(prof); t=time.time()
    try: p=read_program(d); r=type(p).__name__
    except BaseException as e: r='EXC '+type(e).__name__
    sys.setprofile(None); dt=time.time()-t
    cur,peak=tracemalloc.get_traced_memory(); tracemalloc.stop()
    print('%-45s %8d %-10s calls=%8d  %.2fs peak=%.1fMB ratio=%.0f'%(f,len(d),r,n[0],dt,peak/1e6, n[0]/max(1,len(d))))
