import sys, time, faulthandler
from amoco.system.core import read_program
d=open('/repo/tests/samples/x64/toc.osx/toc.mach-o','rb').read()
faulthandler.dump_traceback_later(8, exit=True)
t=time.time()
try: p=read_program(d[:12300]); print(type(p))
except Exception as e: print('exc',type(e),e)
print(time.time()-t)
