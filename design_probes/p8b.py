import random, sys, traceback, collections, pickle
from amoco.cas.mapper import mapper, conf, merge
from amoco.cas.expressions import *
import amoco.cas.expressions as E, gc, faulthandler
faulthandler.dump_traceback_later(100,exit=True)
_osa=object.__setattr__
BORN={}; KEEP=[]; STEP=[0]; WLOG=[]
def site():
    f=sys._getframe(2)
    while f and f.f_code.co_name in('__setattr__','spy'): f=f.f_back
    return '%s:%s'%(f.f_code.co_filename.split('amoco/')[-1], f.f_code.co_qualname)
def spy(self,a,v):
    b=BORN.get(id(self))
    if b is None:
        BORN[id(self)]=STEP[0]; KEEP.append(self)
    elif b<STEP[0]:
        try: old=getattr(self,a)
        except AttributeError: old=WLOG
        if old is not v and (isinstance(old,exp) or isinstance(v,exp) or old!=v):
            WLOG.append((self,a,old,site()))
    _osa(self,a,v)
E.exp.__setattr__=spy
for o in gc.get_objects():
    if isinstance(o,exp): BORN[id(o)]=-1
UNDO=sys.argv[3]
SITES=collections.Counter()
def end_step():
    for o,a,old,s in WLOG: SITES[(type(o).__name__,a,s)]+=1
    if UNDO=='sf':
        for o,a,old,s in reversed(WLOG):
            if a=='sf' and old is not WLOG: _osa(o,a,old)
    del WLOG[:]; STEP[0]+=1
rng=random.Random(int(sys.argv[1]))
R={s:[reg('%s%d'%(n,s),s) for n in 'abc'] for s in (1,8,16,32)}
allregs=sum(R.values(),[])
def valuations(k=4):
    out=[]
    for _ in range(k):
        out.append({r.ref: rng.choice([0,1,(1<<r.size)-1,1<<(r.size-1),rng.getrandbits(r.size)]) for r in allregs})
    return out
def ev(e,val):
    m=mapper()
    for r in allregs: m[r]=cst(val[r.ref],r.size)
    x=m(e)
    if x._is_cst: return ('c',x.size,x.v)
    return ('s',x.size,str(x))
def leaf(sz):
    return rng.choice(R[sz]) if rng.random()<0.7 else cst(rng.choice([0,1,(1<<sz)-1,rng.getrandbits(sz)]),sz)
BIN=['+','-','*','&','|','^','<<','>>','//','==','!=','<','<=','>','>=','ltu','geu','ror','rol','**']
import operator as O
F={'+':O.add,'-':O.sub,'*':O.mul,'&':O.and_,'|':O.or_,'^':O.xor,'<<':O.lshift,'>>':O.rshift,'//':O.floordiv,'==':O.eq,'!=':O.ne,'<':O.lt,'<=':O.le,'>':O.gt,'>=':O.ge,'ltu':ltu,'geu':geu,'ror':ror,'rol':rol,'**':O.pow}
stats=collections.Counter(); ex=[]
for run in range(int(sys.argv[2])):
    vals=valuations()
    del KEEP[:]; BORN_keep={k:v for k,v in BORN.items() if v==-1}; BORN.clear(); BORN.update(BORN_keep); STEP[0]=1
    for r_ in allregs: BORN[id(r_)]=-1
    pool=[]  # (expr, snapshot-bytes, size, evals)
    def add(e,how):
        if not isinstance(e,exp) or e.size not in R or not e._is_def: return
        try: snap=pickle.dumps(e)
        except Exception as x: stats['pickle-exc']+=1; return
        try: evs=[ev(pickle.loads(snap),v) for v in vals]
        except Exception: stats['ev-exc']+=1; return
        pool.append([e,snap,e.size,evs,how])
    for s in (1,8,16,32):
        for _ in range(2): add(leaf(s),'leaf')
    hist=[]
    try:
      for step in range(rng.randint(3,14)):
        k=rng.random()
        a=rng.choice(pool)[0]
        same=[p[0] for p in pool if p[2]==a.size]
        b=rng.choice(same)
        try:
            if k<0.45:
                o=rng.choice(BIN); hist.append((o,str(a),str(b)))
                if o in ('ror','rol','<<','>>','//'): b=cst(rng.randint(0,a.size-1),a.size)
                r=F[o](a,b)
            elif k<0.5: hist.append(('~',str(a))); r=~a
            elif k<0.55: hist.append(('neg',str(a))); r=-a
            elif k<0.65:
                lo=rng.randint(0,a.size-1); hi=rng.randint(lo+1,a.size); hist.append(('slice',str(a),lo,hi)); r=a[lo:hi]
            elif k<0.72:
                c=rng.choice([p[0] for p in pool if p[2]==1]); hist.append(('tst',str(c),str(a),str(b))); r=tst(c,a,b)
            elif k<0.78:
                hist.append(('composer',str(a),str(b))); r=composer([a,b])
            elif k<0.86:
                kw=rng.choice([{},{'bitslice':True}]); hist.append(('simplify',str(a),kw)); r=a.simplify(**kw)
            elif k<0.92:
                m=mapper(); x=rng.choice(allregs); y=rng.choice([p[0] for p in pool if p[2]==x.size]); m[x]=y; hist.append(('mapeval',str(x),str(y),str(a))); r=m(a)
            elif k<0.96:
                hist.append(('ext',str(a))); r=a.signextend(32) if rng.random()<.5 else a.zeroextend(32)
            else:
                hist.append(('vec',str(a),str(b))); r=vec([a,b]).simplify()
        except Exception as x:
            stats['op-exc:%s'%type(x).__name__]+=1; r=None
        end_step()
        # check all pool
        for p in pool:
            e,snap,size,evs,how=p
            if e.size!=size:
                stats['SIZE-CHANGED']+=1; raise AssertionError(('size',how,hist[-1]))
            try: now=[ev(e,v) for v in vals]
            except Exception as x: stats['ev2-exc:%s'%type(x).__name__]+=1; continue
            if now!=evs:
                stats['VALUE-CHANGED']+=1
                raise AssertionError(('value',how,hist[-1],str(pickle.loads(snap)),'->',str(e),evs,now))
        if r is not None: add(r,hist[-1][0])
        end_step()
      stats['ok']+=1
    except AssertionError as x:
        if len(ex)<8: ex.append(x.args[0])
print(stats)
for k,v in SITES.most_common(30): print('  site',v,k)
for e in ex: print(e)
