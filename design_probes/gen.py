import random
def all_specs(d):
    out=[]
    def walk(fl):
        f,l=fl
        if f==0: out.extend(l)
        else:
            for x in l.values(): walk(x)
    for t in d.specs: walk(t)
    return out
def enc(spec, rng, endian=1, tail=8, bias=None):
    n=spec.fix.size
    w=spec.fix.ival | (rng.getrandbits(n) & ~spec.mask.ival & ((1<<n)-1))
    b=w.to_bytes(n//8,'little')
    if endian==-1: b=b[::-1]
    return b+bytes(rng.randrange(256) for _ in range(tail))
