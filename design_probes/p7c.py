import random, sys, traceback, collections
from amoco.cas.mapper import mapper, conf
from amoco.cas.expressions import *
conf.Cas.noaliasing = False
rng=random.Random(int(sys.argv[1]))
P=[reg('p',32),reg('q',32)]
V=[reg('v%d'%i,32) for i in range(3)]
res=collections.Counter(); ex=[]
BASE=0x1000; MEMSZ=64
for run in range(int(sys.argv[2])):
    en=int(sys.argv[3])
    prog=[]
    for _ in range(rng.randint(1,7)):
        pi=rng.randrange(2); off=rng.randint(-2,6); sz=rng.choice((8,16,32))
        if rng.random()<0.55:
            if rng.random()<0.5: val=('c',rng.getrandbits(sz))
            else: val=('v',rng.randrange(3))
            prog.append(('st',pi,off,sz,val))
        else: prog.append(('ld',pi,off,sz))
    # symbolic run
    try:
        m=mapper(); outs=[]
        for k,ins in enumerate(prog):
            if ins[0]=='st':
                _,pi,off,sz,val=ins
                v = cst(val[1],sz) if val[0]=='c' else V[val[1]][0:sz]
                m[mem(P[pi]+off,sz,endian=en)] = m(v)
            else:
                _,pi,off,sz=ins
                r=reg('o%d'%k,sz); outs.append((k,r))
                m[r]=m(mem(P[pi]+off,sz,endian=en))
        # concrete
        pa=[BASE+rng.randint(0,8), BASE+rng.randint(0,8)]
        if rng.random()<0.3: pa[1]=pa[0]+rng.randint(-3,3)
        vv=[rng.getrandbits(32) for _ in V]
        mem0=bytes(rng.randrange(256) for _ in range(MEMSZ))
        prev=mapper()
        prev[mem(cst(BASE-16,32),MEMSZ*8)] = cst(int.from_bytes(mem0,'little'),MEMSZ*8)
        for r,a in zip(P,pa): prev[r]=cst(a,32)
        for r,a in zip(V,vv): prev[r]=cst(a,32)
        ba=bytearray(mem0); model={}
        for k,ins in enumerate(prog):
            if ins[0]=='st':
                _,pi,off,sz,val=ins
                x = val[1] if val[0]=='c' else vv[val[1]]&((1<<sz)-1)
                a=pa[pi]+off-(BASE-16)
                ba[a:a+sz//8]=x.to_bytes(sz//8,'little' if en==1 else 'big')
            else:
                _,pi,off,sz=ins
                a=pa[pi]+off-(BASE-16)
                model[k]=int.from_bytes(ba[a:a+sz//8],'little' if en==1 else 'big')
        # carve-outs
        trig=False
        sts=[]
        for ins in prog:
            if ins[0]=='st':
                _,pi,off,sz,val=ins; a=pa[pi]+off
                for (a2,s2,_,_) in sts:
                    if a2==a and sz<s2: trig=True
                sts.append((a,sz,pi,off))
            else:
                _,pi,off,sz=ins
                last=None
                for (a2,s2,p2,o2) in sts:
                    if p2==pi and o2==off: last=s2
                if last is not None and sz>last: trig=True
        if trig: res['carved']+=1; continue
        final = prev >> m
        def interp(e):
            if e._is_cst: return e.v
            if e._is_cmp:
                r=0
                for (a,b),p in e.parts.items(): r|=interp(p)<<a
                return r
            if e._is_slc: return (interp(e.x)>>e.pos)&((1<<e.size)-1)
            if e._is_mem:
                assert e.a.base._is_cst, e
                mm=bytearray(mem0)
                for loc,v in e.mods:
                    assert loc._is_ptr and loc.base._is_cst,(loc,)
                    ad=((loc.base.v+loc.disp)&0xffffffff)-(BASE-16)
                    x=interp(v); n=v.size//8
                    mm[ad:ad+n]=x.to_bytes(n,'little' if en==1 else 'big')
                ad=((e.a.base.v+e.a.disp)&0xffffffff)-(BASE-16); n=e.size//8
                return int.from_bytes(mm[ad:ad+n],'little' if e.endian==1 else 'big')
            raise TypeError(e)
        bad=False
        for k,r in outs:
            got=final(r)
            if got._is_cst:
                if got.v!=model[k]: bad=True; why=('ld',k,hex(got.v),hex(model[k]))
            else:
                try:
                    x=interp(got)
                    res['interp']+=1
                    if x!=model[k]: bad=True; why=('ld-mods',k,hex(x),hex(model[k]),str(got))
                except (AssertionError,TypeError) as ee:
                    res['symbolic-left']+=1
        # final memory
        got=final(mem(cst(BASE-16,32),MEMSZ*8))
        if got._is_cst:
            if got.v!=int.from_bytes(ba,'little'): bad=True; why=('mem',)
        else: res['mem-symbolic']+=1
        if bad:
            res['MISMATCH']+=1
            if len(ex)<3: ex.append((en,prog,[hex(x) for x in pa],why,str(m)))
        else: res['ok']+=1
    except Exception as e:
        tb=traceback.extract_tb(e.__traceback__)[-1]
        res[(type(e).__name__,tb.name,tb.lineno)]+=1
        if len(ex)<3: ex.append((prog,traceback.format_exc(limit=-3)))
print(res)
for e in ex:
    for x in e: print(x)
    print('--')
