import functools, sys, pickle
from amoco.arch.core import disassembler
from amoco.arch.x86 import cpu_x86
from gen import all_specs
class SimFault(RuntimeError): pass
ARM=[None]
def wrap(h):
    @functools.wraps(h)
    def t(*a,**k):
        if ARM[0] is not None:
            ARM[0]-=1
            if ARM[0]<0: ARM[0]=None; raise SimFault('injected')
        return h(*a,**k)
    return t
d=cpu_x86.disassemble
for s in all_specs(d): s.hook=wrap(s.hook)
def fp(i): return None if i is None else (bytes(i.bytes).hex(), i.mnemonic, [str(o) for o in i.operands])
b=bytes.fromhex('f3 66 8b 45 08')
print(fp(d(b)))
ARM[0]=2   # third hook invocation raises (after two prefixes)
try: d(b)
except SimFault as e: print('raised',e, 'pending=',d._disassembler__i is not None)
print('next:',fp(d(bytes.fromhex('90'))))
print('next2:',fp(d(bytes.fromhex('90'))))
i=d(bytes.fromhex('8b4508')); print(str(i), pickle.loads(pickle.dumps(i)))
# C20 seams
import amoco.system.core as C, io
class SimFile(io.BytesIO):
    name='sim://f'
FS={'sim://f': open('/repo/tests/samples/x86/flow.elf','rb').read()}
def sim_open(name,mode='r',*a,**k):
    if isinstance(name,(bytes,bytearray)): raise ValueError('embedded null byte') if b'\0' in name else FileNotFoundError(name)
    if name in FS:
        f=SimFile(FS[name]); return f
    raise FileNotFoundError(name)
C.open=sim_open
p=C.read_program('sim://f'); print(type(p).__name__, p.filename)
class BudgetExceeded(BaseException): pass
n=[0]; LIM=[20000]
def prof(fr,ev,arg):
    if ev=='call':
        n[0]+=1
        if n[0]>LIM[0]: raise BudgetExceeded()
d=open('/repo/tests/samples/x64/toc.osx/toc.mach-o','rb').read()
FS['sim://g']=d[:12300]
sys.setprofile(prof)
try:
    p=C.read_program('sim://g'); r=type(p).__name__
except BudgetExceeded: r='BUDGET'
except Exception as e: r='EXC '+type(e).__name__
finally: sys.setprofile(None)
print(r, n[0])
