"""Zygote: imports amoco once, then forks one world per simulated run.

Started by the supervisor as ``python -m amosim.zygote <engine>`` with
PYTHONHASHSEED fixed, HOME and cwd pointing at empty directories.  Protocol:
one JSON object per line on stdin (``{"id": n, "runs": [spec, ...]}``), one
JSON object per line on stdout (``{"id": n, "results": [...]}``).
"""
import faulthandler
import importlib
import json
import os
import resource
import select
import signal
import sys
import tempfile
import time
import traceback


def _setup_path():
    repo = os.environ.get("AMOSIM_REPO", "/repo")
    repo = os.path.realpath(repo)
    # the scratch copy (sensitivity runs) or /repo must win over the editable
    # install's path entry
    sys.path.insert(0, repo)
    sys.dont_write_bytecode = True
    return repo


def _check_amoco(repo):
    import amoco

    p = os.path.realpath(amoco.__file__)
    if not p.startswith(repo + os.sep):
        raise RuntimeError("amoco imported from %s, expected under %s" % (p, repo))


def run_world(engine, spec, timeout):
    """fork a world, run one spec, return its result dict."""
    r, w = os.pipe()
    tb = tempfile.TemporaryFile(prefix="amosim-tb-")
    pid = os.fork()
    if pid == 0:
        # ---- world ----
        code = 0
        try:
            os.close(r)
            signal.signal(signal.SIGINT, signal.SIG_IGN)
            lim = spec.get("rlimit_as")
            if lim:
                resource.setrlimit(resource.RLIMIT_AS, (lim, lim))
            faulthandler.enable(file=tb)
            faulthandler.dump_traceback_later(max(1.0, timeout - 1.0), file=tb, exit=False)
            engine.WORLD_PIPE = w
            try:
                res = engine.run(spec)
            except BaseException as e:  # harness error inside the world
                res = {
                    "status": "harness_error",
                    "error": "%s: %s" % (type(e).__name__, e),
                    "tb": traceback.format_exc()[-4000:],
                }
            try:
                ru = resource.getrusage(resource.RUSAGE_SELF)
                rc = resource.getrusage(resource.RUSAGE_CHILDREN)
                res["rusage"] = [round(ru.ru_utime, 2), round(ru.ru_stime, 2), ru.ru_minflt, round(rc.ru_utime, 2), round(rc.ru_stime, 2), rc.ru_minflt]
            except Exception:
                pass
            try:
                data = b"\n" + json.dumps(res).encode()
            except Exception as e:
                data = b"\n" + json.dumps(
                    {"status": "harness_error", "error": "unserialisable result: %r" % (e,)}
                ).encode()
            off = 0
            while off < len(data):
                off += os.write(w, data[off : off + 65536])
        except BaseException:
            code = 70
        finally:
            os._exit(code)
    # ---- zygote ----
    os.close(w)
    chunks = []
    deadline = time.monotonic() + timeout
    timed_out = False
    while True:
        left = deadline - time.monotonic()
        if left <= 0:
            timed_out = True
            break
        rl, _, _ = select.select([r], [], [], left)
        if not rl:
            timed_out = True
            break
        d = os.read(r, 1 << 16)
        if not d:
            break
        chunks.append(d)
    os.close(r)
    if timed_out:
        try:
            os.kill(pid, signal.SIGKILL)
        except ProcessLookupError:
            pass
    _, st = os.waitpid(pid, 0)
    tbtxt = ""
    try:
        tb.seek(0)
        tbtxt = tb.read().decode("utf8", "replace")[-6000:]
    except Exception:
        pass
    tb.close()
    # the world may write progress lines before its final result line
    lines = [l for l in b"".join(chunks).split(b"\n") if l.strip()]
    progress = None
    final = None
    for l in lines:
        try:
            o = json.loads(l)
        except Exception:
            continue
        if isinstance(o, dict) and "status" in o:
            final = o
        else:
            progress = o
    if timed_out:
        return {"status": "timeout", "timeout_s": timeout, "tb": tbtxt, "progress": progress}
    if final is None:
        return {"status": "crash", "wait_status": st, "tb": tbtxt, "progress": progress}
    return final


def main():
    name = sys.argv[1]
    repo = _setup_path()
    engine = importlib.import_module("amosim.engines." + name)
    engine.zygote_init()
    _check_amoco(repo)
    # everything imported so far is permanent: keep the collector from walking
    # (and thereby dirtying, page by page, in every forked world) the zygote's heap
    import gc

    gc.collect()
    gc.freeze()
    out = sys.stdout
    out.write(json.dumps({"ready": True, "pid": os.getpid()}) + "\n")
    out.flush()
    for line in sys.stdin:
        line = line.strip()
        if not line:
            continue
        job = json.loads(line)
        results = []
        for spec in job["runs"]:
            t0 = time.monotonic()
            res = run_world(engine, spec, float(spec.get("timeout", job.get("timeout", 60))))
            res["wall"] = round(time.monotonic() - t0, 4)
            results.append(res)
        out.write(json.dumps({"id": job["id"], "results": results}) + "\n")
        out.flush()


if __name__ == "__main__":
    main()
