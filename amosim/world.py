"""Helpers used inside a world (imported by engines; no amoco import here)."""
import collections
import hashlib
import json
import random


class SimFault(RuntimeError):
    """An injected fault (never raised by amoco itself)."""


class EventLog(object):
    """sha256 over (step, client, op digest, result digest); never draws from
    the PRNG and never reads a clock."""

    def __init__(self):
        self.h = hashlib.sha256()
        self.n = 0

    def event(self, *items):
        self.h.update(repr(items).encode("utf8", "backslashreplace"))
        self.h.update(b"\n")
        self.n += 1

    def digest(self):
        return self.h.hexdigest()[:32]


class Stats(object):
    """Counters reported by a world; merged by summation in the supervisor."""

    def __init__(self):
        self.c = collections.Counter()

    def hit(self, key, n=1):
        self.c[key] += n

    def as_dict(self):
        return dict(self.c)


def jdump(x):
    return json.dumps(x, sort_keys=True)


def weighted(rng, pairs):
    """pairs: [(item, weight)]; deterministic given rng."""
    tot = sum(w for _, w in pairs)
    x = rng.random() * tot
    acc = 0.0
    for it, w in pairs:
        acc += w
        if x < acc:
            return it
    return pairs[-1][0]


class OpSource(object):
    """Feeds operations to a scenario either from a generator function (and
    records them) or from a recorded trace (replay).  Engines write

        src = OpSource(spec, gen)          # gen(rng, state) -> op dict or None
        while True:
            op = src.next(state)
            if op is None: break
            ... execute op ...

    so that generation and replay share the executing code."""

    def __init__(self, spec, gen):
        self.replay = spec.get("trace")
        self.gen = gen
        self.rng = random.Random(spec.get("seed", 0))
        self.trace = []
        self.pos = 0

    def next(self, state=None):
        if self.replay is not None:
            if self.pos >= len(self.replay):
                return None
            op = self.replay[self.pos]
            self.pos += 1
        else:
            op = self.gen(self.rng, state)
            if op is None:
                return None
        self.trace.append(op)
        return op


class RefServer(object):
    """Pristine reference worlds (DESIGN.md 2.1/2.5).

    Must be created at the very start of a world, before any analysis code has
    run: it forks a server that stays pristine; each query forks a grandchild
    of the server, which executes ``fn(request)`` with no history and returns
    the JSON result.  Results are cached by request."""

    def __init__(self, fn, close_fds=()):
        import os

        self.fn = fn
        self.cache = {}
        self.queries = 0
        q_r, q_w = os.pipe()
        a_r, a_w = os.pipe()
        pid = os.fork()
        if pid == 0:
            try:
                os.close(q_w)
                os.close(a_r)
                for fd in close_fds:
                    try:
                        os.close(fd)
                    except OSError:
                        pass
                self._serve(q_r, a_w)
            finally:
                os._exit(0)
        os.close(q_r)
        os.close(a_w)
        self.pid = pid
        self.q = os.fdopen(q_w, "w")
        self.a = os.fdopen(a_r, "r")

    def _serve(self, q_r, a_w):
        import os
        import gc

        qf = os.fdopen(q_r, "r")
        for line in qf:
            req = json.loads(line)
            r, w = os.pipe()
            pid = os.fork()
            if pid == 0:
                code = 0
                try:
                    os.close(r)
                    gc.disable()  # short-lived: a collection would only copy pages
                    try:
                        res = {"ok": self.fn(req)}
                    except BaseException as e:
                        res = {"err": "%s: %s" % (type(e).__name__, e)}
                    data = (json.dumps(res) + "\n").encode()
                    off = 0
                    while off < len(data):
                        off += os.write(w, data[off : off + 65536])
                except BaseException:
                    code = 71
                finally:
                    os._exit(code)
            os.close(w)
            chunks = []
            while True:
                d = os.read(r, 1 << 16)
                if not d:
                    break
                chunks.append(d)
            os.close(r)
            os.waitpid(pid, 0)
            data = b"".join(chunks) or (json.dumps({"err": "reference world died"}) + "\n").encode()
            off = 0
            while off < len(data):
                off += os.write(a_w, data[off : off + 65536])

    def query(self, req):
        key = jdump(req)
        if key in self.cache:
            return self.cache[key]
        self.queries += 1
        self.q.write(key + "\n")
        self.q.flush()
        line = self.a.readline()
        if not line:
            raise RuntimeError("reference server died")
        res = json.loads(line)
        if "err" in res:
            raise RuntimeError("reference world failed: " + res["err"])
        self.cache[key] = res["ok"]
        return res["ok"]

    def close(self):
        import os

        try:
            self.q.close()
            self.a.close()
            os.waitpid(self.pid, 0)
        except Exception:
            pass


def progress(fd, obj):
    """write a progress line on the world's result pipe (read by the zygote;
    the last one is attached to a timeout / crash report)"""
    import os

    if fd is None:
        return
    data = (json.dumps(obj) + "\n").encode()
    off = 0
    while off < len(data):
        off += os.write(fd, data[off : off + 65536])
