"""./check selftest determinism [Cxx ...]   -- same seeds, twice, two worker counts, two hash seeds
   ./check selftest mutants [Cxx ...]       -- every mutants/<Cxx>-*.patch must be caught
                                               (…-EQUIV-… patches must stay clean)
   ./check selftest seeds [Cxx ...]         -- every seeded/<id>/patch.diff (sub-agent changes) must be caught
"""
import glob
import importlib
import os
import shutil
import subprocess
import sys
import tempfile

from . import PROPERTIES
from .supervisor import Pool, VERIF


def _specs(prop, n):
    eng = importlib.import_module("amosim.engines." + PROPERTIES[prop])
    specs = eng.plan(prop, "quick", int(os.environ.get("VERIF_SEED", "0") or 0))
    # a few of each kind, the cheapest first
    by_kind = {}
    for s in specs:
        by_kind.setdefault(s.get("kind"), []).append(s)
    out = []
    for k, lst in by_kind.items():
        out.extend(lst[: max(1, n // len(by_kind))])
    for s in out:
        s.update({"prop": prop, "tier": "quick", "known_keys": _known(prop), "timeout": getattr(eng, "WORLD_TIMEOUT", 120)})
        # shorter worlds: determinism does not need the full length
        for key, div in (("calls", 4), ("cases", 4), ("steps", 3), ("budget", 5)):
            if key in s:
                s[key] = max(10, s[key] // div)
    return out


def _known(prop):
    from .driver import load_known

    return [e["key"] for e in load_known(prop)[0]]


def determinism(props):
    bad = 0
    for prop in props:
        specs = _specs(prop, 6)
        runs = {}
        for label, workers, hs in (("w16-a", 16, "0"), ("w16-b", 16, "0"), ("w1", 1, "0"), ("hash12345", 16, "12345")):
            sub = specs if workers > 1 else specs[:2]
            with Pool(PROPERTIES[prop], workers=workers, hashseed=hs) as p:
                rs = p.map([dict(s) for s in sub], chunk=1)
            runs[label] = [(r.get("status"), r.get("digest")) for r in rs]
        ref = runs["w16-a"]
        for label, got in runs.items():
            n = len(got)
            same = got == ref[:n]
            print("determinism %s %-10s %d worlds %s" % (prop, label, n, "identical" if same else "DIFFERENT"))
            if not same:
                bad += 1
                for i, (a, b) in enumerate(zip(ref, got)):
                    if a != b:
                        print("   world %d: %s vs %s" % (i, a, b))
        if any(st not in ("ok", "carved") for st, _ in ref):
            print("   note: statuses %s" % sorted(set(st for st, _ in ref)))
    return 1 if bad else 0


def mutants(props, seeds=False):
    if seeds:
        pats = sorted(glob.glob(os.path.join(VERIF, "seeded", "*", "patch.diff")))
    else:
        pats = sorted(glob.glob(os.path.join(VERIF, "mutants", "*.patch")))
    wrong = 0
    rows = []
    for path in pats:
        name = os.path.basename(os.path.dirname(path)) if seeds else os.path.basename(path)
        prop = name.split("-")[0]
        if props and prop not in props:
            continue
        if prop not in PROPERTIES:
            continue
        expect_clean = "-EQUIV-" in name
        scratch = tempfile.mkdtemp(prefix="amosim-scratch-")
        os.rmdir(scratch)
        out = tempfile.mkdtemp(prefix="amosim-out-")
        try:
            subprocess.run(["git", "-C", "/repo", "worktree", "add", "-q", "--detach", scratch, "HEAD"], check=True)
            ap = subprocess.run(["git", "-C", scratch, "apply", path])
            if ap.returncode != 0:
                rows.append((name, "PATCH-DOES-NOT-APPLY"))
                wrong += 1
                print("mutant %-55s %s" % rows[-1])
                continue
            env = dict(os.environ, AMOSIM_REPO=scratch, AMOSIM_EVIDENCE_DIR=os.path.join(out, "ev"), AMOSIM_REPLAY_DIR=os.path.join(out, "rp"))
            r = subprocess.run([os.path.join(VERIF, "check"), prop, "--tier", "quick"], env=env, capture_output=True, text=True)
            got = r.returncode
            line = next((l for l in r.stdout.splitlines() if l.startswith("VIOLATION")), "")
            sig = line.split("#")[-1].strip()[:90] if line else ""
            ok = (got == 0) if expect_clean else (got == 1)
            rows.append((name, "exit=%d %s %s" % (got, "as expected" if ok else "UNEXPECTED", sig)))
            if not ok:
                wrong += 1
        finally:
            subprocess.run(["git", "-C", "/repo", "worktree", "remove", "--force", scratch], capture_output=True)
            shutil.rmtree(scratch, ignore_errors=True)
            shutil.rmtree(out, ignore_errors=True)
        print("mutant %-55s %s" % rows[-1])
        sys.stdout.flush()
    print("%d mutants, %d not as expected" % (len(rows), wrong))
    return 1 if wrong else 0


def main(argv):
    if not argv:
        print(__doc__)
        return 2
    props = [a for a in argv[1:] if a in PROPERTIES] or sorted(PROPERTIES)
    if argv[0] == "determinism":
        return determinism(props)
    if argv[0] == "mutants":
        return mutants(props if len(argv) > 1 else [])
    if argv[0] == "seeds":
        return mutants(props if len(argv) > 1 else [], seeds=True)
    print(__doc__)
    return 2
