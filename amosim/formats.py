"""Independent (struct-based) readers used by filesim: magic identification,
header/table field location, and synthesis of minimal valid images.
No amoco import."""
import struct


def magic_format(d):
    """format a *valid* file of this content must be identified as, or None
    when the content carries no unambiguous magic."""
    if d[:4] == b"\x7fELF":
        return "Elf"
    if d[:2] == b"MZ" and len(d) >= 0x40:
        (lfanew,) = struct.unpack("<I", d[0x3C:0x40])
        if d[lfanew : lfanew + 4] == b"PE\0\0":
            return "PE"
    if d[:4] in (b"\xfe\xed\xfa\xce", b"\xce\xfa\xed\xfe", b"\xfe\xed\xfa\xcf", b"\xcf\xfa\xed\xfe", b"\xca\xfe\xba\xbe"):
        return "MachO"
    if d[:2] == b"\x4c\x01" and len(d) >= 20:
        return "COFF"
    if d[:1] == b":":
        return "HEX"
    if d[:2] == b"S0":
        return "SREC"
    return None


def _elf_fields(d, out):
    if len(d) < 52:
        return
    is64 = d[4] == 2
    e = "<" if d[5] == 1 else ">"
    en = "little" if d[5] == 1 else "big"
    for off, n, lab in [(4, 1, "ei_class"), (5, 1, "ei_data"), (6, 1, "ei_version"), (16, 2, "e_type"), (18, 2, "e_machine"), (20, 4, "e_version")]:
        out.append((off, n, en, "elf." + lab))
    if is64:
        lay = [(24, 8, "e_entry"), (32, 8, "e_phoff"), (40, 8, "e_shoff"), (48, 4, "e_flags"), (52, 2, "e_ehsize"), (54, 2, "e_phentsize"), (56, 2, "e_phnum"), (58, 2, "e_shentsize"), (60, 2, "e_shnum"), (62, 2, "e_shstrndx")]
    else:
        lay = [(24, 4, "e_entry"), (28, 4, "e_phoff"), (32, 4, "e_shoff"), (36, 4, "e_flags"), (40, 2, "e_ehsize"), (42, 2, "e_phentsize"), (44, 2, "e_phnum"), (46, 2, "e_shentsize"), (48, 2, "e_shnum"), (50, 2, "e_shstrndx")]
    vals = {}
    for off, n, lab in lay:
        if off + n <= len(d):
            out.append((off, n, en, "elf." + lab))
            vals[lab] = int.from_bytes(d[off : off + n], en)
    # program headers
    phoff, phes, phn = vals.get("e_phoff", 0), vals.get("e_phentsize", 0), vals.get("e_phnum", 0)
    if is64:
        ph = [(0, 4, "p_type"), (4, 4, "p_flags"), (8, 8, "p_offset"), (16, 8, "p_vaddr"), (32, 8, "p_filesz"), (40, 8, "p_memsz"), (48, 8, "p_align")]
    else:
        ph = [(0, 4, "p_type"), (4, 4, "p_offset"), (8, 4, "p_vaddr"), (16, 4, "p_filesz"), (20, 4, "p_memsz"), (24, 4, "p_flags"), (28, 4, "p_align")]
    for k in range(min(phn, 6)):
        base = phoff + k * phes
        for o, n, lab in ph:
            if base + o + n <= len(d):
                out.append((base + o, n, en, "elf.ph%d.%s" % (k, lab)))
    shoff, shes, shn = vals.get("e_shoff", 0), vals.get("e_shentsize", 0), vals.get("e_shnum", 0)
    if is64:
        sh = [(0, 4, "sh_name"), (4, 4, "sh_type"), (8, 8, "sh_flags"), (16, 8, "sh_addr"), (24, 8, "sh_offset"), (32, 8, "sh_size"), (40, 4, "sh_link"), (44, 4, "sh_info"), (48, 8, "sh_addralign"), (56, 8, "sh_entsize")]
    else:
        sh = [(0, 4, "sh_name"), (4, 4, "sh_type"), (8, 4, "sh_flags"), (12, 4, "sh_addr"), (16, 4, "sh_offset"), (20, 4, "sh_size"), (24, 4, "sh_link"), (28, 4, "sh_info"), (32, 4, "sh_addralign"), (36, 4, "sh_entsize")]
    # all sections of interesting types (symtab, strtab, dynamic, rel, dynsym), first few of the others
    for k in range(min(shn, 64)):
        base = shoff + k * shes
        if base + 8 > len(d):
            break
        typ = int.from_bytes(d[base + 4 : base + 8], en)
        if k >= 6 and typ not in (2, 3, 4, 6, 9, 11):
            continue
        for o, n, lab in sh:
            if base + o + n <= len(d):
                out.append((base + o, n, en, "elf.sh%d.%s" % (k, lab)))


def _pe_fields(d, out):
    if len(d) < 0x40:
        return
    out.append((0x3C, 4, "little", "pe.e_lfanew"))
    (nt,) = struct.unpack("<I", d[0x3C:0x40])
    if nt + 24 > len(d):
        return
    for o, n, lab in [(4, 2, "Machine"), (6, 2, "NumberOfSections"), (12, 4, "PointerToSymbolTable"), (16, 4, "NumberOfSymbols"), (20, 2, "SizeOfOptionalHeader"), (22, 2, "Characteristics")]:
        out.append((nt + o, n, "little", "pe.file." + lab))
    opt = nt + 24
    if opt + 2 > len(d):
        return
    magic = int.from_bytes(d[opt : opt + 2], "little")
    out.append((opt, 2, "little", "pe.opt.Magic"))
    pe64 = magic == 0x20B
    for o, n, lab in [(4, 4, "SizeOfCode"), (16, 4, "AddressOfEntryPoint"), (32, 4, "SectionAlignment"), (36, 4, "FileAlignment"), (56, 4, "SizeOfImage"), (60, 4, "SizeOfHeaders")]:
        out.append((opt + o, n, "little", "pe.opt." + lab))
    nrva = opt + (108 if pe64 else 92)
    out.append((nrva, 4, "little", "pe.opt.NumberOfRvaAndSizes"))
    dd = nrva + 4
    for k in range(16):
        out.append((dd + 8 * k, 4, "little", "pe.dd%d.rva" % k))
        out.append((dd + 8 * k + 4, 4, "little", "pe.dd%d.size" % k))
    soh = int.from_bytes(d[nt + 20 : nt + 22], "little")
    nsec = int.from_bytes(d[nt + 6 : nt + 8], "little")
    st = opt + soh
    for k in range(min(nsec, 8)):
        b = st + 40 * k
        for o, n, lab in [(8, 4, "VirtualSize"), (12, 4, "VirtualAddress"), (16, 4, "SizeOfRawData"), (20, 4, "PointerToRawData"), (36, 4, "Characteristics")]:
            if b + o + n <= len(d):
                out.append((b + o, n, "little", "pe.sec%d.%s" % (k, lab)))


def _macho_fields(d, out):
    if len(d) < 28:
        return
    m = d[:4]
    if m == b"\xca\xfe\xba\xbe":
        out.append((4, 4, "big", "fat.nfat_arch"))
        n = int.from_bytes(d[4:8], "big")
        for k in range(min(n, 4)):
            b = 8 + 20 * k
            for o, lab in [(0, "cputype"), (8, "offset"), (12, "size"), (16, "align")]:
                out.append((b + o, 4, "big", "fat.arch%d.%s" % (k, lab)))
        return
    en = "little" if m in (b"\xce\xfa\xed\xfe", b"\xcf\xfa\xed\xfe") else "big"
    is64 = m in (b"\xcf\xfa\xed\xfe", b"\xfe\xed\xfa\xcf")
    for o, lab in [(4, "cputype"), (8, "cpusubtype"), (12, "filetype"), (16, "ncmds"), (20, "sizeofcmds"), (24, "flags")]:
        out.append((o, 4, en, "macho." + lab))
    ncmds = int.from_bytes(d[16:20], en)
    off = 32 if is64 else 28
    for k in range(min(ncmds, 40)):
        if off + 8 > len(d):
            break
        cmd = int.from_bytes(d[off : off + 4], en)
        size = int.from_bytes(d[off + 4 : off + 8], en)
        out.append((off, 4, en, "macho.lc%d.cmd" % k))
        out.append((off + 4, 4, en, "macho.lc%d.cmdsize" % k))
        # the first fields of the command body (offsets / counts live there)
        body = min(size, 80)
        for o in range(8, body, 4):
            if off + o + 4 <= len(d) and (k < 4 or cmd & 0xFF in (0x2, 0xB, 0x22, 0x26, 0x29, 0x1D, 0x1E)):
                out.append((off + o, 4, en, "macho.lc%d.+%d" % (k, o)))
        if size <= 0:
            break
        off += size


def _coff_fields(d, out):
    if len(d) < 20:
        return
    for o, n, lab in [(0, 2, "Machine"), (2, 2, "NumberOfSections"), (8, 4, "PointerToSymbolTable"), (12, 4, "NumberOfSymbols"), (16, 2, "SizeOfOptionalHeader")]:
        out.append((o, n, "little", "coff." + lab))
    nscns = int.from_bytes(d[2:4], "little")
    nsyms = int.from_bytes(d[12:16], "little")
    opt = int.from_bytes(d[16:18], "little")
    off = 20 + opt
    for k in range(min(nscns, 4)):
        b = off + 40 * k
        for o, n, lab in [(16, 4, "s_size"), (20, 4, "s_scnptr"), (24, 4, "s_relptr"), (28, 4, "s_lnnoptr"), (32, 2, "s_nreloc"), (34, 2, "s_nlnno")]:
            if b + o + n <= len(d):
                out.append((b + o, n, "little", "coff.sec%d.%s" % (k, lab)))
    # (amoco reads the symbol table right after the section headers; entries are 20 bytes there)
    sy = off + 40 * nscns
    for k in range(min(nsyms, 4)):
        b = sy + 20 * k
        for o, n, lab in [(4, 4, "n_offset"), (8, 4, "n_value"), (12, 2, "n_scnum"), (17, 1, "n_numaux")]:
            if b + o + n <= len(d):
                out.append((b + o, n, "little", "coff.sym%d.%s" % (k, lab)))


def locate_fields(d):
    """-> list of (offset, size, byteorder, label) of header/table fields"""
    out = []
    try:
        if d[:4] == b"\x7fELF":
            _elf_fields(d, out)
        elif d[:2] == b"MZ":
            _pe_fields(d, out)
        elif d[:4] in (b"\xfe\xed\xfa\xce", b"\xce\xfa\xed\xfe", b"\xfe\xed\xfa\xcf", b"\xcf\xfa\xed\xfe", b"\xca\xfe\xba\xbe"):
            _macho_fields(d, out)
        else:
            _coff_fields(d, out)
    except Exception:
        pass
    seen = set()
    res = []
    for f in out:
        if f[0] + f[1] <= len(d) and (f[0], f[1]) not in seen:
            seen.add((f[0], f[1]))
            res.append(f)
    return res


def boundary_values(size, filesize):
    mx = (1 << (8 * size)) - 1
    vals = [0, 1, mx, mx - 1, (mx >> 1), (mx >> 1) + 1, filesize & mx, (filesize + 1) & mx, max(0, filesize - 1) & mx, 0x10 & mx, 0xFFFF & mx]
    out = []
    for v in vals:
        if v not in out:
            out.append(v)
    return out


# ---------------------------------------------------------------------------
# synthesis of minimal valid images
# ---------------------------------------------------------------------------
def synth_elf(is64, little, nph, nsh, seed=0):
    e = "<" if little else ">"
    ident = b"\x7fELF" + bytes([2 if is64 else 1, 1 if little else 2, 1, 0]) + b"\0" * 8
    ehsize = 64 if is64 else 52
    phes = 56 if is64 else 32
    shes = 64 if is64 else 40
    phoff = ehsize if nph else 0
    code = bytes((seed * 7 + i * 13) & 0xFF for i in range(32))
    code_off = ehsize + nph * phes
    strtab = b"\0.text\0.shstrtab\0"
    str_off = code_off + len(code)
    shoff = str_off + len(strtab) if nsh else 0
    shn = nsh + 1 if nsh else 0  # + null section
    if nsh:
        shn = max(shn, 3) if nsh >= 2 else shn
    entry = 0x10000 + code_off
    if is64:
        hdr = ident + struct.pack(e + "HHIQQQIHHHHHH", 2, 62, 1, entry, phoff, shoff, 0, ehsize, phes, nph, shes, shn, (shn - 1) if shn >= 3 else 0)
    else:
        hdr = ident + struct.pack(e + "HHIIIIIHHHHHH", 2, 3, 1, entry, phoff, shoff, 0, ehsize, phes, nph, shes, shn, (shn - 1) if shn >= 3 else 0)
    ph = b""
    for k in range(nph):
        if is64:
            ph += struct.pack(e + "IIQQQQQQ", 1 if k == 0 else 4, 5, 0, 0x10000, 0x10000, str_off, str_off, 0x1000)
        else:
            ph += struct.pack(e + "IIIIIIII", 1 if k == 0 else 4, 0, 0x10000, 0x10000, str_off, str_off, 5, 0x1000)
    sh = b""
    if shn:
        secs = [(0, 0, 0, 0, 0, 0)]
        if shn >= 2:
            secs.append((1, 1, 6, 0x10000 + code_off, code_off, len(code)))
        while len(secs) < shn - 1:
            secs.append((1, 1, 6, 0x10000 + code_off, code_off, len(code)))
        if shn >= 3:
            secs.append((7, 3, 0, 0, str_off, len(strtab)))
        for (nm, typ, fl, addr, off, sz) in secs[:shn]:
            if is64:
                sh += struct.pack(e + "IIQQQQIIQQ", nm, typ, fl, addr, off, sz, 0, 0, 1, 0)
            else:
                sh += struct.pack(e + "IIIIIIIIII", nm, typ, fl, addr, off, sz, 0, 0, 1, 0)
    return hdr + ph + code + strtab + sh


def synth_hex(nrec, seed=0):
    lines = []
    addr = 0x100
    for k in range(nrec):
        data = bytes((seed + k * 17 + j * 3) & 0xFF for j in range(1 + (seed + k) % 16))
        rec = bytes([len(data), (addr >> 8) & 0xFF, addr & 0xFF, 0]) + data
        ck = (-sum(rec)) & 0xFF
        lines.append(":" + (rec + bytes([ck])).hex().upper())
        addr += len(data)
    lines.append(":00000001FF")
    return ("\n".join(lines) + "\n").encode()


def synth_srec(nrec, seed=0):
    lines = []
    hdr = bytes([3, 0, 0])
    lines.append("S0" + (hdr + bytes([(~sum(hdr)) & 0xFF])).hex().upper())
    addr = 0x200
    for k in range(nrec):
        data = bytes((seed * 3 + k * 11 + j) & 0xFF for j in range(1 + (seed + k) % 16))
        rec = bytes([len(data) + 3, (addr >> 8) & 0xFF, addr & 0xFF]) + data
        lines.append("S1" + (rec + bytes([(~sum(rec)) & 0xFF])).hex().upper())
        addr += len(data)
    end = bytes([3, 0, 0])
    lines.append("S9" + (end + bytes([(~sum(end)) & 0xFF])).hex().upper())
    return ("\n".join(lines) + "\n").encode()


def synth_coff(nscns=2, nsyms=3, opthdr=True, seed=0):
    """a COFF object as amoco's reader lays it out: file header, optional header,
    section headers, symbol entries (20 bytes, aux entries 44), string table, then the
    raw data / relocations / line numbers the section headers point to"""
    opt = struct.pack("<hhiiiIii", 0x10B, 0, 16, 8, 0, 0x1000, 0x1000, 0x2000) if opthdr else b""
    hdr_end = 20 + len(opt) + 40 * nscns
    syms = b""
    for k in range(nsyms):
        name = (b"sym%d" % k).ljust(8, b"\0") if k % 2 == 0 else struct.pack("<ii", 0, 4 + 4 * (k // 2))
        naux = 1 if k == 0 else 0
        ent = name + struct.pack("<IhHbB", 0x1000 + 4 * k, 1 + k % max(1, nscns), 0x20, 2, naux)
        syms += ent.ljust(20, b"\0") + b"\0" * (44 * naux)
    strings = b"foo\0bar\0baz\0"
    strtab = struct.pack("<I", len(strings)) + strings
    data_off = hdr_end + len(syms) + len(strtab)
    secs = b""
    blobs = b""
    for k in range(nscns):
        raw = bytes((seed + 5 * k + j) & 0xFF for j in range(16 if k == 0 else 8))
        scnptr = data_off + len(blobs)
        blobs += raw
        nrel, nln = (1, 0) if k == 0 else (0, 0)  # (amoco cannot unpack a LINENO at all: a C14 matter)
        relptr = data_off + len(blobs) if nrel else 0
        blobs += struct.pack("<iiH", 4, 1, 6).ljust(12, b"\0") * nrel
        lnptr = data_off + len(blobs) if nln else 0
        blobs += struct.pack("<iH", 0, 1).ljust(8, b"\0") * nln
        nm = (b".text" if k == 0 else b".data").ljust(8, b"\0")
        secs += nm + struct.pack("<IIIiiiHHi", 0x1000 * (k + 1), 0x1000 * (k + 1), len(raw), scnptr, relptr, lnptr, nrel, nln, 0x20 if k == 0 else 0x40)
    fh = struct.pack("<HHiiiHH", 0x14C, nscns, 0x5F000000, hdr_end, nsyms, len(opt), 0x104)
    return fh + opt + secs + syms + strtab + blobs


def gen_valid(g):
    """a valid text image of an arbitrary firmware: {"kind": "hex"|"srec", "seed", "size" (bytes of
    firmware), "reclen", "eol", "style"} -> bytes.  Deterministic, no amoco."""
    import random as _r

    r = _r.Random(g["seed"])
    size = g["size"]
    style = g.get("style", "random")
    if style == "avr":
        # interrupt vector table (jmp xx) followed by code-like bytes
        fw = bytearray()
        while len(fw) < min(size, 104):
            fw += bytes([0x0C, 0x94, r.randrange(256), 0x00])
        fw += bytes(r.randrange(256) for _ in range(max(0, size - len(fw))))
        fw = bytes(fw[:size])
    else:
        fw = bytes(r.randrange(256) for _ in range(size))
    n = g.get("reclen", 16)
    eol = g.get("eol", "\n")
    lines = []
    if g["kind"] == "hex":
        for a in range(0, len(fw), n):
            data = fw[a : a + n]
            rec = bytes([len(data), (a >> 8) & 0xFF, a & 0xFF, 0]) + data
            lines.append(":" + (rec + bytes([(-sum(rec)) & 0xFF])).hex().upper())
        lines.append(":00000001FF")
    else:
        name = g.get("name", "HDR").encode()
        h = bytes([len(name) + 3, 0, 0]) + name
        lines.append("S0" + (h + bytes([(~sum(h)) & 0xFF])).hex().upper())
        for a in range(0, len(fw), n):
            data = fw[a : a + n]
            rec = bytes([len(data) + 3, (a >> 8) & 0xFF, a & 0xFF]) + data
            lines.append("S1" + (rec + bytes([(~sum(rec)) & 0xFF])).hex().upper())
        e = bytes([3, 0, 0])
        lines.append("S9" + (e + bytes([(~sum(e)) & 0xFF])).hex().upper())
    return (eol.join(lines) + eol).encode()


def synth_fat(n=1):
    out = b"\xca\xfe\xba\xbe" + struct.pack(">I", n)
    for k in range(n):
        out += struct.pack(">IIIII", 7, 3, 4096 * (k + 1), 64, 12)
    return out + b"\0" * 64


SYNTH = {}
for _is64 in (False, True):
    for _le in (True, False):
        for _nph in (0, 1, 3):
            for _nsh in (0, 1, 3):
                SYNTH["synth:elf%d%s:ph%d:sh%d" % (64 if _is64 else 32, "le" if _le else "be", _nph, _nsh)] = synth_elf(_is64, _le, _nph, _nsh, seed=_nph * 3 + _nsh)
for _n in (1, 4, 20):
    SYNTH["synth:hex:%d" % _n] = synth_hex(_n, _n)
    SYNTH["synth:srec:%d" % _n] = synth_srec(_n, _n)
def synth_fat_self(n):
    """fat header whose arch entries all point back at the file itself"""
    size = 8 + 20 * n + 64
    out = b"\xca\xfe\xba\xbe" + struct.pack(">I", n)
    for k in range(n):
        out += struct.pack(">IIIII", 7, 3, 0, size, 12)
    return out + b"\0" * 64


SYNTH["synth:fat:self1"] = synth_fat_self(1)
SYNTH["synth:fat:self2"] = synth_fat_self(2)
SYNTH["synth:fat:1"] = synth_fat(1)
SYNTH["synth:fat:2"] = synth_fat(2)
SYNTH["synth:coff:2:3"] = synth_coff(2, 3, True, 1)
SYNTH["synth:coff:1:0"] = synth_coff(1, 0, False, 2)
SYNTH["synth:coff:3:5"] = synth_coff(3, 5, True, 3)
SYNTH["synth:empty"] = b""
