"""Heap seams for C10/C13 (DESIGN.md 2.3): write barrier on amoco expression
nodes, structural fingerprints, global-state snapshots.  World side only."""
import sys

MISSING = object()


class Barrier(object):
    """Intercepts every attribute store on an ``exp`` node.

    Only stores that hit a *tracked* node (one that existed before the current
    step and that somebody else holds) are logged: (node, field, old, new,
    site).  ``site`` is ``file:qualname:field`` of the innermost amoco frame
    that performed the store.  The barrier is never an oracle: it attributes a
    divergence to a write site and implements the undo of *listed* sites."""

    def __init__(self):
        self.tracked = {}  # id(node) -> (node, owner)
        self.log = []  # writes of the current step
        self.active = True
        self.installed = False
        self.total = 0

    def install(self):
        if self.installed:
            return
        import amoco.cas.expressions as E

        tracked = self.tracked
        log = self.log
        osa = object.__setattr__
        me = self

        def barrier(obj, name, value):
            t = tracked.get(id(obj))
            if t is not None and me.active:
                try:
                    old = object.__getattribute__(obj, name)
                except AttributeError:
                    old = MISSING
                same = old is value
                if not same and isinstance(old, (int, bool, str, type(None))) and isinstance(value, (int, bool, str, type(None))):
                    same = old == value and type(old) is type(value)
                if not same:
                    f = sys._getframe(1)
                    while f is not None and f.f_code.co_name == "__setattr__":
                        f = f.f_back
                    site = "?"
                    g = f
                    while g is not None:
                        fn = g.f_code.co_filename
                        # signed()/unsigned() are documented to modify their receiver:
                        # the site is the caller that applied them to a shared node
                        if "/amoco/" in fn and g.f_code.co_qualname not in ("exp.signed", "exp.unsigned"):
                            site = "%s:%s" % (fn.split("/amoco/")[-1], g.f_code.co_qualname)
                            break
                        g = g.f_back
                    log.append((obj, name, old, value, site))
                    me.total += 1
            osa(obj, name, value)

        E.exp.__setattr__ = barrier
        self.installed = True

    # -- tracking ---------------------------------------------------------------
    def track(self, node, owner):
        """track node and everything reachable from it"""
        for n in walk(node):
            k = id(n)
            if k not in self.tracked:
                self.tracked[k] = (n, owner)

    def begin_step(self):
        del self.log[:]

    def writes(self):
        return list(self.log)

    def undo(self, listed):
        """restore, in reverse order, the writes of this step performed by a
        listed site (key = site:field); returns {key: count}"""
        done = {}
        osa = object.__setattr__
        for (obj, name, old, new, site) in reversed(self.log):
            key = "%s:%s" % (site, name)
            if key in listed and old is not MISSING:
                osa(obj, name, old)
                done[key] = done.get(key, 0) + 1
        return done

    def rollback(self, mark):
        """undo every logged write after position ``mark`` (oracle evaluations
        must not perturb the heap) and drop them from the log"""
        osa = object.__setattr__
        for (obj, name, old, new, site) in reversed(self.log[mark:]):
            if old is not MISSING:
                osa(obj, name, old)
        del self.log[mark:]


SLOTS_CACHE = {}


def slots_of(cls):
    s = SLOTS_CACHE.get(cls)
    if s is None:
        s = []
        for k in cls.__mro__:
            for n in getattr(k, "__slots__", ()):
                if n.startswith("__") and not n.endswith("__"):
                    n = "_%s%s" % (k.__name__.lstrip("_"), n)
                if n not in s:
                    s.append(n)
        SLOTS_CACHE[cls] = s
    return s


def children(n):
    """exp nodes directly referenced by n (through slots and containers)"""
    out = []
    for s in slots_of(type(n)):
        try:
            v = object.__getattribute__(n, s)
        except AttributeError:
            continue
        _collect(v, out, 0)
    return out


def _collect(v, out, depth):
    from amoco.cas.expressions import exp

    if isinstance(v, exp):
        out.append(v)
    elif isinstance(v, (list, tuple)) and depth < 3:
        for x in v:
            _collect(x, out, depth + 1)
    elif isinstance(v, dict) and depth < 3:
        for x in v.values():
            _collect(x, out, depth + 1)


def tree_size(root, cap=10 ** 9):
    """number of nodes of the expression seen as a tree (what amoco's recursive
    walkers pay), computed on the DAG with a memo; saturates at cap"""
    memo = {}
    stack = [(root, False)]
    while stack:
        n, done = stack.pop()
        if id(n) in memo and not done:
            continue
        ch = children(n)
        if done:
            memo[id(n)] = min(cap, 1 + sum(memo.get(id(c), 1) for c in ch))
            continue
        memo[id(n)] = 1  # provisional (cycles do not occur in amoco expressions)
        stack.append((n, True))
        for c in ch:
            if id(c) not in memo:
                stack.append((c, False))
    return memo[id(root)]


def walk(root, limit=5000):
    seen = set()
    stack = [root]
    out = []
    while stack and len(out) < limit:
        n = stack.pop()
        if id(n) in seen:
            continue
        seen.add(id(n))
        out.append(n)
        stack.extend(children(n))
    return out


def fingerprint(root, limit=3000):
    """structural fingerprint (type, scalar slots incl. sf, container shapes);
    cheap, read-only, independent of rendering"""
    from amoco.cas.expressions import exp

    seen = {}
    acc = []

    def fp(v, depth):
        if isinstance(v, exp):
            k = id(v)
            if k in seen:
                return ("ref", seen[k])
            seen[k] = len(seen)
            if len(seen) > limit:
                return ("...",)
            items = [type(v).__name__]
            for s in slots_of(type(v)):
                if s in ("view",):
                    continue
                try:
                    x = object.__getattribute__(v, s)
                except AttributeError:
                    items.append((s, "<unset>"))
                    continue
                items.append((s, fp(x, depth + 1)))
            return tuple(items)
        if isinstance(v, (int, bool, str, type(None), float, bytes)):
            return v
        if isinstance(v, (list, tuple)):
            return tuple(fp(x, depth + 1) for x in v)
        if isinstance(v, dict):
            try:
                ks = sorted(v.keys(), key=repr)
            except Exception:
                ks = list(v.keys())
            return tuple((repr(k), fp(v[k], depth + 1)) for k in ks)
        if hasattr(v, "symbol"):  # _operator
            return ("op", v.symbol, getattr(v, "unary", 0))
        return ("obj", type(v).__name__)

    return fp(root, 0)
