"""heapsim (algebra workload) -- C13: expressions, maps and memory behave as values.

A case = a pool of *published* expressions (shared leaves: registers and
constant objects) held by several holders; a seeded history of operations that
take pool members as arguments (operators, helpers, slicing, composition, tst,
vec, extensions, simplify with options, eval, mapper read/write/compose/merge,
MemoryMap write/read, str/toks/complexity, pickle round trips), some of them
aborted half-way by an injected exception.  After every step every published
expression must keep its width, its comp nodes must tile, and it must denote
the same values under K fixed valuations as when it was published.
"""
import hashlib
import pickle
import random
import traceback

from ..world import EventLog, Stats, OpSource, SimFault, weighted, progress
from ..supervisor import run_seed

PROPERTY_IDS = ["C13"]
LEVEL = "exploration"
WORLD_TIMEOUT = 300
WORLD_PIPE = None
CONTEXT_OPS = ("case",)
K = 3

RULE = (
    "one case = a pool (<= 28) of published expressions over shared register and constant objects (widths 1..64) and a seeded "
    "history of 5..40 operations taking pool members as arguments (all operator methods, ltu/geu/ror/rol, slicing, composer, tst, "
    "vec, zero/signextend, simplify with {} / bitslice / widening on fresh and on published receivers, eval, mapper set/get/compose/"
    "merge, MemoryMap write/read, str/toks/complexity, pickle round trips of expressions, mappers and memory maps; 8% of the "
    "operations aborted by an injected exception in complexity/symbols_of/extract_offset). After every step each published "
    "expression whose structure changed (and all of them at the end) is re-checked: width, comp tiling, value under 3 fixed "
    "valuations (amoco eval in a fresh environment, oracle-side writes rolled back). Non-trivial: >= 3 operations that used a "
    "published expression as operand and >= 1 decided comparison; distinct = distinct event-log digests."
)
ASSUMPTIONS = [
    "denotation is amoco's own eval on the live node versus the values recorded at publication (stability, not absolute correctness, which is C01)",
    "comparison is on (size, v) of constants; a value that is symbolic on either side is counted as incomparable",
    "APIs whose documented purpose is to modify their receiver (signed/unsigned, x.sf = .., item assignment on an owned comp, simplify(widening=True)) are generated only on fresh nodes",
    "shift amounts are kept below 2 x width (cst.__lshift__ materialises value << n before masking: a C01 matter)",
    "listed known write sites are undone at step end (carve-out, DESIGN 2.7); witnesses replay without undo",
    "sampling, not proof",
]
REAL_VS_STUB = {
    "real": ["amoco.cas.expressions (all node kinds, operators, simplify, eval, pickling)", "amoco.cas.mapper (mapper, merge)", "amoco.system.memory.MemoryMap"],
    "stub": ["write barrier on exp.__setattr__ (attribution + undo of listed sites only)", "fault trampolines on complexity / symbols_of / extract_offset"],
    "absent": ["network", "clock", "threads", "disk I/O"],
}
PROBES = {
    "C13": [
        "write-to-published-node",
        "shared-constant-used-by-signed-op",
        "inplace-simplify-reshaped-published",
        "abort-fired",
        "pickle:exp",
        "pickle:mapper",
        "pickle:memorymap",
        "map-holds-published",
        "memory-holds-published",
        "merge-done",
        "compose-done",
        "client-modified-comp-read-from-map",
        "map-derived-from-stored-map",
        "pickle:mapper-reads-compared",
        "map-with-conditions",
    ]
}

BIN = ["+", "-", "*", "&", "|", "^", "<<", ">>", "//", "**", "/", "%", "==", "!=", "<", "<=", ">", ">="]
SIZES = [1, 8, 16, 32, 64]


def plan(prop, tier, seed):
    n, cases = (32, 200) if tier == "quick" else (160, 400)
    return [{"kind": "random", "seed": run_seed(seed, prop, tier, i), "cases": cases, "want_sample": i < 2} for i in range(n)]


def zygote_init():
    import amoco.cas.mapper  # noqa
    import amoco.cas.expressions  # noqa


# ---------------------------------------------------------------------------
def regval(name, k, size):
    if k == 1:
        return (1 << size) - 1
    h = int.from_bytes(hashlib.sha256(("%s|%d" % (name, k)).encode()).digest()[:8], "big")
    if name.startswith("s"):  # shift-amount registers stay small
        return h % (2 * size) if size > 1 else h & 1
    if k == 2:
        return (1 << (size - 1)) | (h & 0xFF if size >= 8 else 0)
    return h & ((1 << size) - 1)


class Trip(object):
    """abort trampolines on helper functions of the algebra"""

    count = None
    fired = 0
    names = ("complexity", "symbols_of", "extract_offset")
    installed = False

    @classmethod
    def install(cls):
        if cls.installed:
            return
        import functools
        import amoco.cas.expressions as E
        import amoco.cas.mapper as M

        for n in cls.names:
            orig = getattr(E, n)

            def mk(orig):
                @functools.wraps(orig)
                def t(*a, **k):
                    if Trip.count is not None:
                        if Trip.count <= 0:
                            Trip.count = None
                            Trip.fired += 1
                            raise SimFault("injected abort")
                        Trip.count -= 1
                    return orig(*a, **k)

                return t

            w = mk(orig)
            setattr(E, n, w)
            if getattr(M, n, None) is orig:
                setattr(M, n, w)
        cls.installed = True


def same_value(was, now, widening=False):
    """denotations are ["cst", size, sorted alternatives]; equal sets, or -- for the
    operands of a simplify / merge called with widening=True, which asks for an
    over-approximation -- a superset"""
    if was[0] != "cst" or now[0] != "cst":
        return was == now
    if was[1] != now[1]:
        return False
    if widening:
        return set(was[2]) <= set(now[2])
    return set(was[2]) == set(now[2])


class Failure(Exception):
    def __init__(self, vclass, detail):
        Exception.__init__(self, vclass)
        self.vclass = vclass
        self.detail = detail


class Item(object):
    __slots__ = ("id", "e", "size", "vals", "fp", "nodes")


class Case(object):
    def __init__(self, op, st, barrier, known):
        from amoco.cas.expressions import reg, cst
        from amoco.cas.mapper import mapper, conf
        from amoco.system.memory import MemoryMap

        self.st = st
        self.B = barrier
        self.known = set(known)
        self.items = {}
        self.order = []
        self.maps = {}
        self.twins = {}  # same writes, never used as an operand / evaluated / composed
        self.widened = set()
        self.held = {}
        self.held_conds = {}
        self.mm = MemoryMap()
        self.mm2 = MemoryMap()
        self.mm_model = {}
        self.log = EventLog()
        self.used = 0
        self.decided = 0
        self.incomparable = 0
        conf.Cas.complexity = op.get("complexity", 10000)
        # aliasing assumed away (amoco's default) or not (the mode of the repo's own mapper tests)
        conf.Cas.noaliasing = not op.get("aliasing", False)
        conf.Cas.memtrace = True
        if op.get("aliasing"):
            st.hit("config:aliasing-on")
        self.regs = {}
        # tracked nodes are per case
        self.B.tracked.clear()

    # -- evaluation (oracle side: writes rolled back) -----------------------------
    def evaluate(self, e, k):
        from amoco.cas.mapper import mapper
        from amoco.cas.expressions import cst

        mark = len(self.B.log)
        try:
            env = self.make_env(k)
            try:
                v = e.eval(env)
                if v._is_cst:
                    return ["cst", v.size, [v.v]]
                if v._is_vec and not v._is_top:
                    # a vec denotes a set of alternatives
                    alts = set()
                    for a in v.l:
                        a = a.simplify() if hasattr(a, "simplify") else a
                        if not a._is_cst:
                            return ["sym"]
                        alts.add(a.v & ((1 << a.size) - 1))
                    return ["cst", v.size, sorted(alts)]
                return ["sym"]
            except Exception as x:
                return ["exc", type(x).__name__]
        finally:
            self.B.rollback(mark)

    def make_env(self, k):
        """fresh concrete environment: every register, and 96 bytes of memory
        around the address held by a32 (so that mem leaves evaluate to constants)"""
        from amoco.cas.mapper import mapper
        from amoco.cas.expressions import cst, mem

        env = mapper()
        for name, r in self.regs.items():
            env[r] = cst(regval(name, k, r.size), r.size)
        if "a32" in self.regs:
            base = (regval("a32", k, 32) - 32) & 0xFFFFFFFF
            if base < 0xFFFFFF00:
                pat = int.from_bytes(hashlib.sha256(b"mem|%d" % k).digest() * 3, "little")
                env[mem(cst(base, 32), 96 * 8)] = cst(pat, 96 * 8)
        return env

    def publish(self, id_, e):
        from ..heap import fingerprint, walk

        if id_ in self.items or len(self.items) >= 28:
            return
        if e is None or not hasattr(e, "etype"):
            return
        if e._is_top or not e._is_def:
            return
        it = Item()
        it.id = id_
        it.e = e
        it.size = e.size
        it.vals = [self.evaluate(e, k) for k in range(K)]
        it.fp = fingerprint(e)
        it.nodes = set(id(n) for n in walk(e))
        self.items[id_] = it
        self.order.append(id_)
        self.B.track(e, id_)

    def get(self, id_):
        it = self.items.get(id_)
        return it.e if it is not None else None

    def loc_key(self, loc):
        """registers by name; pointers by the addresses they denote (a key may be re-shaped
        in place into an equivalent pointer: base/displacement folding)"""
        if loc._is_ptr:
            return "ptr:" + repr([self.evaluate(loc, k) for k in range(K)])
        return str(loc)

    # -- holders: what a map holds must not change unless the map is written -----------
    def snapshot_map(self, mid):
        from ..heap import fingerprint

        m = self.maps.get(mid)
        if m is None:
            self.held.pop(mid, None)
            self.held_conds.pop(mid, None)
            return
        try:
            self.held_conds[mid] = [[self.evaluate(c, k) for k in range(K)] for c in m.conds]
        except Exception:
            self.held_conds.pop(mid, None)
        snap = {}
        try:
            for loc, v in m:
                snap[self.loc_key(loc)] = {"fp": fingerprint(v), "vals": [self.evaluate(v, k) for k in range(K)], "size": v.size}
        except Exception:
            return
        self.held[mid] = snap

    def _map_state(self, m):
        """entries by value (K valuations; an equivalent re-shaping of a stored value is
        allowed) and memory by content (adjacent raw parts joined)"""
        ent = {}
        for loc, v in m:
            ent[self.loc_key(loc)] = [v.size] + [self.evaluate(v, k) for k in range(K)]
        zones = []
        mm = m.mmap
        for rel in sorted(mm._zones, key=lambda x: str(x)):
            z = mm._zones[rel]
            lo, hi = z.range()
            if hi > lo:
                zones.append("%s@%d: %s" % (rel, lo, " ".join(self._join_parts(z.read(lo, hi - lo)))))
        return ent, zones

    @staticmethod
    def _join_parts(parts):
        out = []
        raw = b""
        for p in parts:
            if isinstance(p, (bytes, bytearray)):
                raw += bytes(p)
                continue
            if raw:
                out.append("b:" + raw.hex())
                raw = b""
            out.append("%s/%d" % (p, p.size))
        if raw:
            out.append("b:" + raw.hex())
        return out

    def check_twins(self, op, widening=False):
        for mid, tw in self.twins.items():
            m = self.maps.get(mid)
            if m is None or tw is None:
                continue
            a, b = self._map_state(m), self._map_state(tw)
            self.decided += 1
            if widening:
                self.widened.add(mid)
            if set(a[0]) != set(b[0]):
                raise Failure("map-differs-from-unused-twin", {"map": mid, "what": "locations", "used": sorted(a[0])[:6], "twin": sorted(b[0])[:6]})
            for l in a[0]:
                va, vb = a[0][l], b[0][l]
                if va[0] != vb[0]:
                    raise Failure("map-differs-from-unused-twin", {"map": mid, "what": "size", "loc": l, "used": va, "twin": vb})
                for k in range(K):
                    if va[1 + k][0] == "cst" and vb[1 + k][0] in ("cst", "exc") and not same_value(vb[1 + k], va[1 + k], widening or mid in self.widened) or (vb[1 + k][0] == "cst" and va[1 + k][0] == "exc"):
                        raise Failure("map-differs-from-unused-twin", {"map": mid, "what": "value", "loc": l, "valuation": k, "used": va[1 + k], "twin": vb[1 + k]})
            za, zb = a[1], b[1]
            if widening or mid in self.widened:
                # a widening operation may turn a stored vec into its widened form (the listed
                # alternatives stay among the values): the marker is not a difference
                za = [x.replace(", ...]", "]") for x in za]
                zb = [x.replace(", ...]", "]") for x in zb]
            if za != zb:
                raise Failure("map-differs-from-unused-twin", {"map": mid, "what": "memory", "used": a[1][:6], "twin": b[1][:6]})
        if self._join_parts(self.mm.read(0, 160)) != self._join_parts(self.mm2.read(0, 160)):
            raise Failure("memorymap-differs-from-unused-twin", {"used": self._join_parts(self.mm.read(0, 160))[:8], "twin": self._join_parts(self.mm2.read(0, 160))[:8]})

    def check_maps(self, op, widening=False):
        from ..heap import fingerprint

        self.check_twins(op, widening)
        for mid, rec in self.held_conds.items():
            m = self.maps.get(mid)
            if m is None:
                continue
            if len(m.conds) != len(rec):
                raise Failure("map-conds-changed", {"map": mid, "was": len(rec), "now": [str(c)[:80] for c in m.conds][:6]})
            for c, vals in zip(m.conds, rec):
                for k in range(K):
                    nv = self.evaluate(c, k)
                    if vals[k][0] == "cst" and nv[0] in ("cst", "exc"):
                        self.decided += 1
                        if not same_value(vals[k], nv):
                            raise Failure("map-conds-changed", {"map": mid, "cond": str(c)[:120], "valuation": k, "was": vals[k], "now": nv})
        for mid, snap in self.held.items():
            m = self.maps.get(mid)
            if m is None:
                continue
            now = {}
            for loc, v in m:
                now[self.loc_key(loc)] = v
            if set(now) != set(snap):
                raise Failure("map-content-changed", {"map": mid, "appeared": sorted(set(now) - set(snap))[:4], "vanished": sorted(set(snap) - set(now))[:4]})
            for l, v in now.items():
                rec = snap[l]
                f = fingerprint(v)
                if f == rec["fp"]:
                    continue
                if v.size != rec["size"]:
                    raise Failure("map-content-changed", {"map": mid, "loc": l, "size_was": rec["size"], "size_now": v.size})
                for k in range(K):
                    nv = self.evaluate(v, k)
                    if rec["vals"][k][0] == "cst" and nv[0] in ("cst", "exc"):
                        self.decided += 1
                        if not same_value(rec["vals"][k], nv, widening):
                            raise Failure("map-content-changed", {"map": mid, "loc": l, "valuation": k, "was": rec["vals"][k], "now": nv, "expr": str(v)[:200]})
                        if widening:
                            rec["vals"][k] = nv
                    else:
                        self.incomparable += 1
                rec["fp"] = f

    # -- the oracle ------------------------------------------------------------------
    def check(self, op, final=False):
        from ..heap import fingerprint, walk

        widening = bool((op.get("opts") or {}).get("widening"))
        self.check_maps(op, widening)

        for id_ in self.order:
            it = self.items[id_]
            f = fingerprint(it.e)
            if f == it.fp and not final:
                continue
            e = it.e
            if e.size != it.size:
                raise Failure("width-changed", {"item": id_, "was": it.size, "now": e.size, "expr": str(e)[:200]})
            for n in walk(e):
                if n._is_cmp:
                    ks = sorted(n.parts.keys())
                    pos = 0
                    for (a, b) in ks:
                        if a != pos or b <= a or n.parts[(a, b)].size != b - a:
                            raise Failure("comp-not-tiling", {"item": id_, "parts": [list(k) for k in ks], "size": n.size})
                        pos = b
                    if pos != n.size:
                        raise Failure("comp-not-tiling", {"item": id_, "parts": [list(k) for k in ks], "size": n.size})
            for k in range(K):
                now = self.evaluate(e, k)
                was = it.vals[k]
                if was[0] == "cst" and now[0] == "cst":
                    self.decided += 1
                    if not same_value(was, now, widening):
                        raise Failure("value-changed", {"item": id_, "valuation": k, "was": was, "now": now, "expr": str(e)[:300]})
                    if widening and was != now:
                        it.vals[k] = now  # widened on request: the new baseline
                elif was[0] == "cst" and now[0] == "exc":
                    raise Failure("value-changed", {"item": id_, "valuation": k, "was": was, "now": now, "expr": str(e)[:300]})
                else:
                    self.incomparable += 1
            if f != it.fp:
                self.st.hit("probe:inplace-simplify-reshaped-published" if op.get("op") == "simplify" else "published-restructured-equivalently")
                it.fp = f
                it.nodes = set(id(n) for n in walk(e))
                self.B.track(e, id_)

    # -- operations ------------------------------------------------------------------
    def leaf(self, op):
        from amoco.cas.expressions import reg, cst

        if op["k"] == "reg":
            r = self.regs.get(op["name"])
            if r is None:
                r = reg(op["name"], op["size"])
                self.regs[op["name"]] = r
            return r
        if op["k"] == "mem":
            from amoco.cas.expressions import mem

            base = self.regs.get(op["base"])
            if base is None:
                return None
            return mem(base + op["disp"], op["size"], endian=op["en"])
        return cst(op["v"], op["size"])

    def apply(self, op):
        """execute one operation; returns the value to publish (or None)"""
        import amoco.cas.expressions as E
        from amoco.cas.mapper import mapper, merge
        from amoco.cas.expressions import cst, composer, tst, vec, mem, ptr, ltu, geu, ror, rol

        k = op["op"]
        g = self.get
        if k == "leaf":
            return self.leaf(op)
        a = g(op.get("a")) if "a" in op else None
        b = g(op.get("b")) if "b" in op else None
        if "a" in op and a is None:
            return None
        if "b" in op and b is None:
            return None
        self.used += 1
        if k == "bin":
            s = op["sym"]
            if s in ("<", "<=", ">", ">=", "//", "/", "%", "**") and (a._is_cst or b._is_cst):
                self.st.hit("probe:shared-constant-used-by-signed-op")
            if s == "+":
                return a + b
            if s == "-":
                return a - b
            if s == "*":
                return a * b
            if s == "&":
                return a & b
            if s == "|":
                return a | b
            if s == "^":
                return a ^ b
            if s == "<<":
                return a << b
            if s == ">>":
                return a >> b
            if s == "//":
                return a // b
            if s == "**":
                return a ** b
            if s == "/":
                return a / b
            if s == "%":
                return a % b
            if s == "==":
                return a == b
            if s == "!=":
                return a != b
            if s == "<":
                return a < b
            if s == "<=":
                return a <= b
            if s == ">":
                return a > b
            if s == ">=":
                return a >= b
        if k == "un":
            return ~a if op["sym"] == "~" else -a
        if k == "call":
            return {"ltu": ltu, "geu": geu}[op["f"]](a, b) if op["f"] in ("ltu", "geu") else {"ror": ror, "rol": rol}[op["f"]](a, op["n"])
        if k == "slice":
            return a[op["lo"] : op["hi"]]
        if k == "composer":
            return composer([a, b])
        if k == "tst":
            c = g(op["c"])
            if c is None:
                return None
            return tst(c, a, b)
        if k == "vec":
            return vec([a, b])
        if k == "ext":
            return a.zeroextend(op["n"]) if op["kind"] == "zero" else a.signextend(op["n"])
        if k == "simplify":
            opts = dict(op.get("opts") or {})
            if op.get("fresh"):
                x = {"+": lambda: (a + b), "&": lambda: (a & b), "tst": lambda: tst(a == b, a, b), "slc": lambda: (a ^ b)[0 : max(1, a.size // 2)], "comp": lambda: composer([a, b]),
                     "vec": lambda: vec([a, b]), "tstvec": lambda: tst(self.regs["a1"] == cst(1, 1), a, b) if "a1" in self.regs else tst(a == b, a, b)}[op["shape"]]()
                return x.simplify(**opts)
            return a.simplify(**opts)
        if k == "eval":
            self.evaluate_plain(a, op["val"])
            return None
        if k == "fresh_mut":
            # documented receiver-modifying APIs, on a fresh node only
            x = a + b
            if id(x) in self.B.tracked:
                return None  # (x + 0 returns x itself: not a fresh node)
            if op["how"] == "signed":
                x.signed()
            elif op["how"] == "unsigned":
                x.unsigned()
            else:
                x.sf = True
            return x
        if k == "map_set":
            if op["m"] not in self.maps:
                self.twins[op["m"]] = mapper()
            m = self.maps.setdefault(op["m"], mapper())
            tw = self.twins.get(op["m"])
            if "reg" in op:
                r = self.regs.get(op["reg"])
                if r is None:
                    return None
                if "pos" in op:
                    if op["pos"] + a.size > r.size:
                        return None
                    m[r[op["pos"] : op["pos"] + a.size]] = a
                    if tw is not None:
                        tw[r[op["pos"] : op["pos"] + a.size]] = a
                elif r.size != a.size:
                    return None
                else:
                    m[r] = a
                    if tw is not None:
                        tw[r] = a
            else:
                base = self.regs.get(op["base"])
                if base is None or a.size % 8:
                    return None
                m[mem(base + op["disp"], a.size)] = a
                if tw is not None:
                    tw[mem(base + op["disp"], a.size)] = a
            self.st.hit("probe:map-holds-published")
            return None
        if k == "map_get":
            m = self.maps.get(op["m"])
            if m is None:
                return None
            return m(a)
        if k == "map_read_modify":
            # a client reads a register from a map and then modifies what it got
            # (its own copy, as far as it can tell): the map must not change
            m = self.maps.get(op["m"])
            r = self.regs.get(op["reg"])
            if m is None or r is None:
                return None
            x = m[r] if op.get("form") == "index" else m(r)
            if id(x) in self.B.tracked:
                return None  # the map handed out a published expression itself (e.g. an unset register)
            if x._is_cmp and x.size >= 8:
                x[0:8] = cst(0x5A, 8)
                self.st.hit("probe:client-modified-comp-read-from-map")
            elif not x._is_reg and not x._is_cst:
                x.sf = not x.sf
            return None
        if k == "map_derive":
            # a new map derived from a stored one, on which the analysis then goes on
            # (further map_set ops): the stored one must stay what it was
            m0 = self.maps.get(op["m0"])
            if m0 is None or op["m"] == op["m0"]:
                return None
            how = op["how"]
            if how == "use":
                d = m0.use()
            elif how == "eval-empty":
                d = m0.eval(mapper())
            elif how == "assume-empty":
                d = m0.assume([])
            elif how == "rshift-empty":
                d = m0 >> mapper()
            elif how == "lshift-empty":
                d = mapper() << m0
            else:
                c = g(op["c"])
                if c is None or c.size != 1:
                    return None
                d = m0.assume([c])
                self.st.hit("probe:map-with-conditions")
            self.maps[op["m"]] = d
            self.twins.pop(op["m"], None)
            self.st.hit("probe:map-derived-from-stored-map")
            return None
        if k == "compose":
            m1, m2 = self.maps.get(op["m1"]), self.maps.get(op["m2"])
            if m1 is None or m2 is None:
                return None
            self.maps[op["m"]] = m1 >> m2
            self.twins.pop(op["m"], None)
            self.st.hit("probe:compose-done")
            return None
        if k == "merge":
            m1, m2 = self.maps.get(op["m1"]), self.maps.get(op["m2"])
            if m1 is None or m2 is None:
                return None
            self.maps[op["m"]] = merge(m1, m2, **(op.get("opts") or {}))
            self.twins.pop(op["m"], None)
            self.st.hit("probe:merge-done")
            return None
        if k == "mmw":
            if a.size % 8:
                return None
            self.mm.write(op["addr"], a, op.get("en", 1))
            self.mm2.write(op["addr"], a, op.get("en", 1))
            self.st.hit("probe:memory-holds-published")
            return None
        if k == "mmr":
            self.mm.read(op["addr"], op["l"])
            return None
        if k == "mm_use":
            # uses of a memory map that must leave it as it was
            how = op["how"]
            if how == "copy":
                c = self.mm.copy()
                c.write(op["addr"], cst(0xA5, 8))
            elif how == "restruct":
                self.mm.restruct()
            elif how == "merge-into-fresh":
                from amoco.system.memory import MemoryMap as _MM

                f = _MM()
                f.write(op["addr"], b"zz")
                f.merge(self.mm.copy())
            else:
                pickle.loads(pickle.dumps(self.mm))
            return None
        if k == "str":
            str(a)
            a.toks()
            E.complexity(a)
            return None
        if k == "pickle":
            self.pickle(op, a)
            return None
        if k == "pickle_fresh":
            # round trip of freshly built nodes whose non-default slots matter
            from amoco.cas.expressions import reg as _reg, slc as _slc

            shape = op["shape"]
            t = _reg("t%d" % a.size, a.size)
            if shape == "reg-signed":
                x = t.signed()
            elif shape == "slc-of-signed":
                t.sf = True
                x = t[0 : max(1, a.size // 2)]
            elif shape == "mem-be-mods":
                if a.size % 8:
                    return None
                x = mem(t if t.size in (32, 64) else _reg("t32", 32), a.size, disp=4, mods=[(ptr(_reg("u32", 32), disp=1), a)], endian=-1)
            elif shape == "cst-signed":
                x = cst(-2, a.size)
            elif shape == "op-signed":
                x = (a + t)
                if id(x) in self.B.tracked:
                    return None
                x.sf = True
            elif shape == "tst":
                x = tst(t[0:1] == cst(1, 1), a, t)
            elif shape == "vec":
                x = vec([a, t])
            else:
                x = composer([a, t])
            self.pickle({"what": "exp"}, x)
            return None
        raise ValueError("unknown op %r" % (op,))

    def evaluate_plain(self, e, k):
        """an eval that is part of the history (no rollback)"""
        from amoco.cas.mapper import mapper
        from amoco.cas.expressions import cst

        env = self.make_env(k)
        try:
            e.eval(env)
        except Exception:
            pass

    def pickle(self, op, a):
        from ..heap import fingerprint

        what = op["what"]
        if what == "exp":
            y = pickle.loads(pickle.dumps(a))
            self.st.hit("probe:pickle:exp")
            if str(y) != str(a) or y.size != a.size or hash(y) != hash(a):
                raise Failure("pickle-differs", {"what": "exp", "orig": str(a)[:200], "restored": str(y)[:200]})
            if fingerprint(y) != fingerprint(a):
                raise Failure("pickle-differs", {"what": "exp-structure", "orig": str(a)[:200], "fp_orig": repr(fingerprint(a))[:400], "fp_rest": repr(fingerprint(y))[:400]})
            for k in range(K):
                va, vy = self.evaluate(a, k), self.evaluate(y, k)
                if va != vy:
                    raise Failure("pickle-differs", {"what": "exp-eval", "orig": va, "restored": vy, "expr": str(a)[:200]})
        elif what == "map":
            m = self.maps.get(op["m"])
            if m is None:
                return
            y = pickle.loads(pickle.dumps(m))
            self.st.hit("probe:pickle:mapper")
            la = [(str(l), str(v), v.size) for l, v in m]
            ly = [(str(l), str(v), v.size) for l, v in y]
            if la != ly or [str(c) for c in m.conds] != [str(c) for c in y.conds] or str(m) != str(y):
                raise Failure("pickle-differs", {"what": "mapper", "orig": la[:6], "restored": ly[:6]})
            if [fingerprint(v) for _, v in m] != [fingerprint(v) for _, v in y]:
                raise Failure("pickle-differs", {"what": "mapper-structure", "orig": la[:6]})
            # "evaluates identically": every written location read back through both forms
            from amoco.cas.expressions import mem as _mem

            for l, v in list(m):
                if l._is_ptr and v.size % 8 == 0:
                    k_ = _mem(l, v.size)
                    for form in ("index", "call"):
                        try:
                            ra = m[k_] if form == "index" else m(k_)
                        except Exception as e:
                            ra = "exc:" + type(e).__name__
                        try:
                            ry = y[k_] if form == "index" else y(k_)
                        except Exception as e:
                            ry = "exc:" + type(e).__name__
                        if str(ra) != str(ry):
                            raise Failure("pickle-differs", {"what": "mapper-read-" + form, "loc": str(l), "orig": str(ra)[:200], "restored": str(ry)[:200]})
                        if not isinstance(ra, str):
                            for kk in range(K):
                                va, vy = self.evaluate(ra, kk), self.evaluate(ry, kk)
                                if va != vy:
                                    raise Failure("pickle-differs", {"what": "mapper-read-eval-" + form, "loc": str(l), "orig": va, "restored": vy})
                    self.st.hit("probe:pickle:mapper-reads-compared")
        else:
            y = pickle.loads(pickle.dumps(self.mm))
            self.st.hit("probe:pickle:memorymap")
            ra = self._mmread(self.mm)
            ry = self._mmread(y)
            if ra != ry:
                raise Failure("pickle-differs", {"what": "memorymap", "orig": ra[:8], "restored": ry[:8]})

    @staticmethod
    def _mmread(mm):
        out = []
        for p in mm.read(0, 160):
            if isinstance(p, (bytes, bytearray)):
                out.append("b:" + bytes(p).hex())
            else:
                out.append("%s/%d" % (str(p), p.size))
        return out

    def step(self, op):
        B = self.B
        B.begin_step()
        armed = op.get("abort")
        Trip.count = armed if armed is not None else None
        before = Trip.fired
        res = None
        outcome = "ok"
        try:
            res = self.apply(op)
        except Failure:
            raise
        except SimFault:
            outcome = "aborted"
            if op.get("op") == "map_set":
                # a write to the map itself was interrupted: the property says nothing about
                # the half-written holder, only about the operands; forget the map
                self.maps.pop(op.get("m"), None)
                self.twins.pop(op.get("m"), None)
                self.held.pop(op.get("m"), None)
        except (ValueError, TypeError, ZeroDivisionError, AttributeError, NotImplementedError, OverflowError, AssertionError, MemoryError, KeyError, IndexError, RecursionError) as e:
            # the operation itself is allowed to refuse; its effect on others is what we observe
            outcome = "raised:" + type(e).__name__
        finally:
            Trip.count = None
        if Trip.fired > before:
            self.st.hit("probe:abort-fired")
            self.st.hit("fault:abort-in-" + "helper")
        writes = B.writes()
        if writes:
            self.st.hit("probe:write-to-published-node", len(writes))
            for (obj, name, old, new, site) in writes:
                self.st.hit("site:%s:%s" % (site, name))
        undone = B.undo(self.known)
        for kx, n in undone.items():
            self.st.hit("undone:" + kx, n)
        self.log.event(op, outcome)
        if op["op"] in ("map_set", "compose", "merge", "map_derive"):
            self.held.pop(op.get("m"), None)  # legitimately written by this step
            self.held_conds.pop(op.get("m"), None)
        try:
            self.check(op)
        except Failure as f:
            f.detail["writes"] = sorted(set("%s:%s" % (s, n) for (_, n, _, _, s) in writes))[:8]
            f.detail["outcome"] = outcome
            raise
        if op["op"] in ("map_set", "compose", "merge", "map_derive"):
            self.snapshot_map(op.get("m"))
        if res is not None and op.get("pub") is not None and outcome == "ok":
            self.publish(op["pub"], res)
        self.st.hit("ops:" + op["op"])


# ---------------------------------------------------------------------------
# generation (adaptive: looks at the live pool)
# ---------------------------------------------------------------------------
class Gen(object):
    def __init__(self, known=()):
        self.nid = 0
        self.known = set(known)
        self.reset(None)

    def reset(self, r):
        self.left = 0 if r is None else r.choice([5, 8, 12, 20, 30, 40])
        self.boot = []
        self.nmaps = 0
        self.memhist = {}

    def newid(self):
        self.nid += 1
        return "e%d" % self.nid

    def start(self, r):
        self.reset(r)
        ops = [{"op": "case", "complexity": r.choice([10000, 10000, 30, 8]), "aliasing": r.random() < 0.35}]
        # shared leaves
        regs = [("a1", 1), ("a8", 8), ("b8", 8), ("a16", 16), ("b16", 16), ("a32", 32), ("b32", 32), ("c32", 32), ("a64", 64), ("b64", 64), ("s8", 8), ("s32", 32)]
        for name, size in regs:
            if size in (8, 32) or r.random() < 0.6:
                ops.append({"op": "leaf", "k": "reg", "name": name, "size": size, "pub": self.newid()})
        # open finding `mem-equality-ignores-endianness`: two mem expressions that differ only
        # by their endianness print (hence compare and hash) alike; while it is listed, a case
        # uses one endianness for all its mem leaves (carve-out by avoidance)
        one_en = r.choice([1, 1, -1]) if "mem-equality-ignores-endianness" in self.known else None
        for _ in range(r.choice([1, 2, 3])):
            ops.append({"op": "leaf", "k": "mem", "base": "a32", "disp": r.randrange(-8, 24), "size": r.choice([8, 16, 32, 64]), "en": one_en or r.choice([1, 1, -1]), "pub": self.newid()})
        for size in (8, 16, 32, 64):
            m = (1 << size) - 1
            for v in r.sample([0, 1, m, 1 << (size - 1), m >> 1, r.getrandbits(size), 2, 3, size - 1], r.choice([2, 3, 4])):
                ops.append({"op": "leaf", "k": "cst", "v": v, "size": size, "pub": self.newid()})
        return ops

    def pick(self, r, case, size=None, pred=None):
        c = [i for i in case.order if (size is None or case.items[i].size == size) and (pred is None or pred(case.items[i]))]
        return r.choice(c) if c else None

    def op(self, r, case):
        kinds = [("bin", 10), ("un", 1.5), ("call", 2), ("slice", 2), ("composer", 1.5), ("tst", 1.5), ("vec", 2), ("ext", 1.5), ("simplify", 5), ("eval", 2),
                 ("fresh_mut", 1), ("map_set", 6), ("map_get", 3), ("map_read_modify", 4), ("compose", 1.5), ("merge", 1), ("map_derive", 2.5), ("mmw", 1.5), ("mmr", 0.7), ("mm_use", 1.0), ("str", 1), ("pickle", 2), ("pickle_fresh", 1.5)]
        k = weighted(r, kinds)
        a = self.pick(r, case)
        if a is None:
            return None
        sa = case.items[a].size
        op = {"op": k, "a": a}
        pub = self.newid() if r.random() < 0.55 else None
        if k == "bin":
            sym = r.choice(BIN)
            if r.random() < 0.2:
                # sign-sensitive operators meet shared constants more often
                sym = r.choice(["//", ">>", "<", "<=", ">", ">="])
                c0 = self.pick(r, case, None, lambda it: it.e._is_cst)
                if c0 is not None and r.random() < 0.6:
                    a = c0
                    sa = case.items[a].size
                    op["a"] = a
            if sym in ("<<", ">>", "//"):
                b = self.pick(r, case, sa, lambda it: it.e._is_cst and it.e.v < 2 * sa) or self.pick(r, case, sa, lambda it: it.e._is_reg and str(it.e).startswith("s"))
            else:
                b = self.pick(r, case, sa)
            if b is None:
                return None
            op.update({"sym": sym, "b": b, "pub": pub})
        elif k == "un":
            op.update({"sym": r.choice(["~", "neg"]), "pub": pub})
        elif k == "call":
            f = r.choice(["ltu", "geu", "ror", "rol"])
            if f in ("ltu", "geu"):
                b = self.pick(r, case, sa)
                if b is None:
                    return None
                op.update({"f": f, "b": b, "pub": pub})
            else:
                if sa < 2:
                    return None
                op.update({"f": f, "n": r.randrange(1, sa), "pub": pub})
        elif k == "slice":
            if sa < 2:
                return None
            lo = r.randrange(0, sa - 1)
            hi = r.randrange(lo + 1, sa + 1)
            if r.random() < 0.5:
                lo, hi = (lo // 8) * 8, max((lo // 8) * 8 + 8, (hi // 8) * 8)
                hi = min(hi, sa)
                if hi <= lo:
                    return None
            op.update({"lo": lo, "hi": hi, "pub": pub})
        elif k in ("composer", "vec"):
            b = self.pick(r, case, sa if k == "vec" else None)
            if b is None or (k == "composer" and sa + case.items[b].size > 128):
                return None
            op.update({"b": b, "pub": pub})
        elif k == "tst":
            c = self.pick(r, case, 1)
            b = self.pick(r, case, sa)
            if c is None or b is None:
                return None
            op.update({"c": c, "b": b, "pub": pub})
        elif k == "ext":
            if sa >= 64:
                return None
            op.update({"kind": r.choice(["zero", "sign"]), "n": r.choice([s for s in (8, 16, 32, 64, 128) if s > sa]), "pub": pub})
        elif k == "simplify":
            fresh = r.random() < 0.6
            opts = r.choice([{}, {}, {"bitslice": True}, {"widening": True} if fresh else {}])
            if fresh:
                b = self.pick(r, case, sa)
                if b is None:
                    return None
                op.update({"fresh": True, "shape": r.choice(["+", "&", "tst", "slc", "comp", "vec", "vec", "tstvec"]), "b": b, "opts": opts, "pub": pub})
            else:
                op.update({"fresh": False, "opts": opts})
        elif k == "eval":
            op.update({"val": r.randrange(K)})
        elif k == "fresh_mut":
            b = self.pick(r, case, sa)
            if b is None:
                return None
            op.update({"b": b, "how": r.choice(["signed", "unsigned", "sf"]), "pub": pub})
        elif k == "map_set":
            m = "m%d" % r.randrange(3)
            if r.random() < 0.35:
                c = self.pick(r, case, None, lambda it: it.e._is_cst and it.size % 8 == 0)
                if c is not None:
                    a = c
                    sa = case.items[a].size
                    op["a"] = a
            if r.random() < (0.6 if not case.items[a].e._is_cst else 0.2):
                regs = [n for n, x in case.regs.items() if x.size == sa]
                bigger = [n for n, x in case.regs.items() if x.size > sa]
                if bigger and (not regs or r.random() < 0.4):
                    nm = r.choice(bigger)
                    op.update({"m": m, "reg": nm, "pos": r.choice([0, 0, 8, case.regs[nm].size - sa])})
                elif regs:
                    op.update({"m": m, "reg": r.choice(regs)})
                else:
                    return None
            else:
                if sa % 8 or "a32" not in case.regs:
                    return None
                # push-like (descending, adjacent), rewrite of an earlier slot, or anywhere
                bname = r.choice(["a32", "a32", "b32", "c32"])
                if bname not in case.regs:
                    bname = "a32"
                hist = self.memhist.setdefault((m, bname), [])
                x = r.random()
                if hist and x < 0.4:
                    disp = hist[-1][0] - sa // 8
                elif hist and x < 0.7:
                    disp = r.choice(hist)[0]
                else:
                    disp = r.choice([0, 4, 8, 12, 16, r.randrange(0, 24)])
                hist.append((disp, sa // 8))
                op.update({"m": m, "base": bname, "disp": disp})
        elif k == "map_get":
            op.update({"m": "m%d" % r.randrange(3), "pub": pub})
        elif k == "map_read_modify":
            op = {"op": k, "m": "m%d" % r.randrange(3), "reg": r.choice(sorted(case.regs)), "form": r.choice(["index", "call"])}
        elif k == "map_derive":
            m0 = "m%d" % r.randrange(3)
            m = r.choice([x for x in ("m0", "m1", "m2") if x != m0])
            how = r.choice(["use", "use", "use", "eval-empty", "assume-empty", "rshift-empty", "lshift-empty", "assume", "assume", "assume"])
            op = {"op": k, "m0": m0, "m": m, "how": how}
            if how == "assume":
                c = self.pick(r, case, 1)
                if c is None:
                    op["how"] = "use"
                else:
                    op["c"] = c
        elif k in ("compose", "merge"):
            op = {"op": k, "m1": "m%d" % r.randrange(3), "m2": "m%d" % r.randrange(3), "m": "m%d" % r.randrange(3)}
            if k == "merge":
                op["opts"] = r.choice([{}, {"widening": True}])
        elif k == "mmw":
            if sa % 8:
                return None
            op.update({"addr": r.randrange(0, 100), "en": r.choice([1, 1, -1])})
        elif k == "mmr":
            op = {"op": "mmr", "addr": r.randrange(0, 100), "l": r.randrange(1, 24)}
        elif k == "mm_use":
            op = {"op": "mm_use", "how": r.choice(["copy", "copy", "restruct", "merge-into-fresh", "pickle"]), "addr": r.randrange(0, 100)}
        elif k == "pickle":
            what = r.choice(["exp", "exp", "map", "mm"])
            op.update({"what": what, "m": "m%d" % r.randrange(3)})
        elif k == "pickle_fresh":
            op.update({"shape": r.choice(["reg-signed", "slc-of-signed", "mem-be-mods", "cst-signed", "op-signed", "tst", "vec", "comp"])})
        if r.random() < 0.08 and k in ("bin", "simplify", "map_set", "map_get", "merge", "compose", "str", "composer", "slice", "map_derive"):
            op["abort"] = r.choice([0, 0, 1, 2, 4])
        return op


def shrink_op(op):
    out = []
    if op.get("abort") is not None:
        o = dict(op)
        o.pop("abort")
        out.append(o)
    if op.get("op") == "case" and op.get("complexity") != 10000:
        o = dict(op)
        o["complexity"] = 10000
        out.append(o)
    return out


def run(spec):
    from ..heap import Barrier

    B = Barrier()
    B.install()
    Trip.install()
    rng = random.Random(spec.get("seed", 0))
    known = spec.get("known_keys", [])
    gen = Gen(known)
    budget = [spec.get("cases", 20)]
    pend = []
    state = {"case": None}

    def g(r, _):
        if pend:
            return pend.pop(0)
        case = state["case"]
        if case is None or gen.left <= 0:
            if budget[0] <= 0:
                return None
            budget[0] -= 1
            ops = gen.start(r)
            pend.extend(ops[1:])
            if case is not None:
                pend.insert(0, ops[0])
                return {"op": "final"}
            return ops[0]
        gen.left -= 1
        for _ in range(8):
            op = gen.op(r, case)
            if op is not None:
                return op
        return {"op": "mmr", "addr": 0, "l": 4}

    src = OpSource(spec, g)
    st = Stats()
    wlog = EventLog()
    digests = []
    case = None
    case_start = 0
    viol = None
    steps = 0
    sample = None
    survey = {}

    def close(c):
        if c is None:
            return
        st.hit("cases")
        st.hit("decided-comparisons", c.decided)
        st.hit("incomparable", c.incomparable)
        if c.used >= 3 and c.decided >= 1:
            digests.append(c.log.digest())
            st.hit("cases-nontrivial")
        wlog.event(c.log.digest())

    while viol is None:
        op = src.next()
        if op is None:
            if case is not None:
                try:
                    case.check({"op": "final"}, final=True)
                except Failure as f:
                    viol = _viol(f, {"op": "final"}, case)
            break
        try:
            if op["op"] == "case":
                close(case)
                case = Case(op, st, B, known)
                state["case"] = case
                case_start = len(src.trace) - 1
                continue
            if case is None:
                continue
            if op["op"] == "final":
                case.check(op, final=True)
                continue
            steps += 1
            progress(WORLD_PIPE, {"at": len(src.trace), "op": op})
            case.step(op)
        except Failure as f:
            viol = _viol(f, op, case)
        except Exception as e:
            tb = traceback.extract_tb(e.__traceback__)
            fr = [t for t in tb if "/amoco/" in t.filename]
            if not fr:
                raise
            # an exception raised by the oracle's own evaluation machinery
            where = "%s:%s" % (fr[-1].filename.split("/amoco/")[-1], fr[-1].name)
            viol = {"class": "exception", "signature": "heapsim-alg:exception:%s@%s" % (type(e).__name__, where), "detail": {"op": op, "tb": traceback.format_exc()[-1500:]}}
        if viol is not None and spec.get("survey"):
            sg = viol["signature"]
            st.hit("survey:" + sg)
            survey.setdefault(sg, {"case": src.trace[case_start:], "detail": viol["detail"]})
            viol = None
            case = None  # skip the rest of this case
            state["case"] = None
            gen.left = 0
        if sample is None and spec.get("want_sample") and steps == 30:
            sample = src.trace[case_start:][:40]
    if viol is None:
        close(case)
    res = {
        "status": "violation" if viol else "ok",
        "digest": wlog.digest(),
        "steps": steps,
        "nontrivial": len(digests) > 0,
        "case_digests": digests,
        "cases": st.c["cases"] + (1 if viol else 0),
        "stats": st.as_dict(),
        "seed": spec.get("seed"),
        "config": {},
    }
    if survey:
        res["survey"] = survey
    if viol:
        res["violation"] = viol
        res["trace"] = src.trace[case_start:]
    elif sample is not None:
        res["sample"] = sample
    return res


def _viol(f, op, case):
    writes = f.detail.get("writes") or []
    site = writes[0] if writes else "no-attribute-write(container-or-earlier)"
    return {
        "class": f.vclass,
        "signature": "heapsim-alg:%s:%s:%s" % (f.vclass, op.get("op"), site),
        "detail": dict(f.detail, op=op),
    }


def finalize_coverage(prop, tier, cov, specs, results):
    c = cov["counters"]
    cov["decided_comparisons"] = c.get("decided-comparisons", 0)
    cov["incomparable"] = c.get("incomparable", 0)
    cov["undone_writes_per_site"] = {k[7:]: v for k, v in c.items() if k.startswith("undone:")}
    cov["write_sites_seen"] = {k[5:]: v for k, v in c.items() if k.startswith("site:")}
