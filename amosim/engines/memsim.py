"""memsim -- C08: abstract memory behaves as a last-write-wins byte store.

One world runs many independent cases; a case is a fresh MemoryMap driven by a
seeded history of writes (raw / constant / symbolic, both endiannesses, int /
cst / ptr address forms, concrete and symbolic zones), reads, and maintenance
operations (restruct, copy, shift, merge) landing between any two foreground
operations.  Reference model: dict (zone, addr) -> (writer id, byte index).
The oracle does not trust amoco's slicing: written symbolic values are over
uniquely named registers, returned chunks are interpreted by an independent
evaluator under two fixed valuations, and the model's expectation is computed
from the writer's *descriptor* with plain integers.
"""
import hashlib
import random
import traceback

from ..world import EventLog, Stats, OpSource, weighted
from ..supervisor import run_seed

PROPERTY_IDS = ["C08"]
LEVEL = "exploration"
WORLD_TIMEOUT = 300
WORLD_PIPE = None
CONTEXT_OPS = ("case",)

RULE = (
    "one case = a fresh MemoryMap + a seeded history of 1..40 operations (write raw/cst/symbolic in either "
    "endianness at int/cst/ptr addresses in the concrete zone or symbolic zones p,q, overlapping in a 0..96 window; "
    "reads; restruct/copy/shift/merge between any two operations); after every mutation seeded reads, at the end a "
    "sweep of the whole window of the map and of every retained pre-copy original, compared byte for byte with the "
    "byte model under two valuations. A case is non-trivial when it has >= 2 writes of which >= 1 overlaps an earlier "
    "one, and >= 1 read that returned defined bytes; distinct = distinct event-log digests (ops + read results)."
)
ASSUMPTIONS = [
    "a chunk returned by read is interpreted with the endianness of the write that produced it (the API returns no endianness; mapper._Mem_read makes the same assumption)",
    "a read of a symbolic zone that was never created may raise MemoryError instead of returning bottom (mapper treats both as undefined)",
    "the independent evaluator covers cst/reg/slc/comp and the sign-agnostic operators + - ^ & | only; generated values use only those",
    "no I/O or failure seam exists in this code: fault_kinds is empty by construction, the adversary is the history and the placement of maintenance operations",
    "sampling, not proof",
]
REAL_VS_STUB = {
    "real": ["amoco.system.memory.MemoryMap/MemoryZone/mo/datadiv/mergeparts", "amoco.cas.expressions exp.bytes(), slicing, composer"],
    "stub": ["none (reference byte model and evaluator are oracles, not stubs)"],
    "absent": ["network", "clock", "threads", "disk I/O (not present in the anchored code)"],
}
PROBES = {
    "C08": [
        "write:before-first",
        "write:after-last",
        "write:inside-one-object",
        "write:exact-overwrite",
        "write:spanning-2+-objects",
        "write:touching-end",
        "write:into-hole",
        "write:partial-expr-head",
        "write:partial-expr-tail",
        "write:partial-expr-middle",
        "write:bigendian-partial-cut",
        "restruct:merged",
        "read:starts-in-hole",
        "read:ends-in-hole",
        "read:raw+expr+raw",
        "copy:original-rechecked-after-later-writes",
        "merge:overlapping",
        "shift:applied",
    ]
}


def plan(prop, tier, seed):
    n, cases = (32, 700) if tier == "quick" else (320, 2500)
    return [
        {"kind": "random", "seed": run_seed(seed, prop, tier, i), "cases": cases, "want_sample": i < 2}
        for i in range(n)
    ]


def zygote_init():
    import amoco.system.memory  # noqa
    import amoco.cas.expressions  # noqa


# ---------------------------------------------------------------------------
# independent pieces: valuations, descriptor evaluation, chunk evaluation
# ---------------------------------------------------------------------------
def regval(name, vi, nbits):
    h = hashlib.sha256(("%s|%d" % (name, vi)).encode()).digest()
    while len(h) * 8 < nbits:
        h += hashlib.sha256(h).digest()
    return int.from_bytes(h, "big") & ((1 << nbits) - 1)


def desc_value(d, vi):
    """value (python int) and bit size of a writer descriptor, computed without amoco"""
    k = d["k"]
    if k == "reg":
        return regval(d["name"], vi, d["n"] * 8), d["n"] * 8
    if k == "comp":
        v = 0
        off = 0
        for nm, n in d["parts"]:
            v |= regval(nm, vi, n * 8) << off
            off += n * 8
        return v, off
    if k == "slc":
        big = regval(d["name"], vi, d["big"] * 8)
        return (big >> d["pos"]) & ((1 << (d["n"] * 8)) - 1), d["n"] * 8
    if k == "op":
        a = regval(d["a"], vi, d["n"] * 8)
        b = regval(d["b"], vi, d["n"] * 8)
        m = (1 << (d["n"] * 8)) - 1
        s = d["sym"]
        r = {"+": a + b, "-": a - b, "^": a ^ b, "&": a & b, "|": a | b}[s]
        return r & m, d["n"] * 8
    raise ValueError(k)


def desc_len(d):
    if d["k"] == "comp":
        return sum(n for _, n in d["parts"])
    return d["n"]


def build_exp(d):
    from amoco.cas.expressions import reg, composer

    k = d["k"]
    if k == "reg":
        return reg(d["name"], d["n"] * 8)
    if k == "comp":
        return composer([reg(nm, n * 8) for nm, n in d["parts"]])
    if k == "slc":
        return reg(d["name"], d["big"] * 8)[d["pos"] : d["pos"] + d["n"] * 8]
    if k == "op":
        a = reg(d["a"], d["n"] * 8)
        b = reg(d["b"], d["n"] * 8)
        s = d["sym"]
        return {"+": a + b, "-": a - b, "^": a ^ b, "&": a & b, "|": a | b}[s]
    raise ValueError(k)


class Unsupported(Exception):
    pass


def ev(e, vi):
    """independent evaluator of an amoco expression (structure walk, plain ints)"""
    m = (1 << e.size) - 1
    if e._is_cst:
        return e.v & m
    if e._is_slc:
        return (ev(e.x, vi) >> e.pos) & m
    if e._is_reg:
        return regval(e.ref, vi, e.size)
    if e._is_cmp:
        r = 0
        for (a, b), p in e.parts.items():
            r |= (ev(p, vi) & ((1 << (b - a)) - 1)) << a
        return r & m
    if e._is_eqn:
        sym = e.op.symbol
        if e.op.unary:
            x = ev(e.r, vi)
            if sym == "~":
                return ~x & m
            if sym == "-":
                return -x & m
            raise Unsupported(sym)
        l = ev(e.l, vi)
        r = ev(e.r, vi)
        if sym == "+":
            return (l + r) & m
        if sym == "-":
            return (l - r) & m
        if sym == "^":
            return (l ^ r) & m
        if sym == "&":
            return (l & r) & m
        if sym == "|":
            return (l | r) & m
        raise Unsupported(sym)
    raise Unsupported(type(e).__name__)


def to_bytes(v, n, en):
    return list(v.to_bytes(n, "little" if en == 1 else "big"))


# ---------------------------------------------------------------------------
# the model
# ---------------------------------------------------------------------------
class Model(object):
    def __init__(self, writers):
        self.b = {}  # (zone, addr) -> (wid, k)
        self.w = writers  # shared table wid -> descriptor dict

    def copy(self):
        m = Model(self.w)
        m.b = dict(self.b)
        return m

    def write(self, zone, a, wid, n):
        for k in range(n):
            self.b[(zone, a + k)] = (wid, k)

    def expected(self, zone, a, vi):
        x = self.b.get((zone, a))
        if x is None:
            return None
        wid, k = x
        w = self.w[wid]
        if w["kind"] == "raw":
            return w["bytes"][k]
        v, nbits = desc_value(w["desc"], vi)
        return to_bytes(v, nbits // 8, w["en"])[k]

    def endian_at(self, zone, a):
        x = self.b.get((zone, a))
        if x is None:
            return 1
        w = self.w[x[0]]
        return w.get("en", 1)

    def shift(self, zone, off):
        self.b = {(z, (a + off) if z == zone else a): v for (z, a), v in self.b.items()}

    def overlay(self, other):
        self.b.update(other.b)

    # -- probe classification of a write, computed before the write ----------
    def classify(self, zone, a, n, st):
        zb = sorted(x for (z, x) in self.b if z == zone)
        if not zb:
            return
        if a + n <= zb[0]:
            st.hit("probe:write:before-first")
        if a > zb[-1]:
            st.hit("probe:write:after-last")
        cov = [self.b.get((zone, a + k)) for k in range(n)]
        wids = []
        for c in cov:
            if c is not None and (not wids or wids[-1] != c[0]):
                wids.append(c[0])
        if all(c is None for c in cov):
            if zb[0] < a and a + n - 1 < zb[-1]:
                st.hit("probe:write:into-hole")
            if (zone, a - 1) in self.b or (zone, a + n) in self.b:
                st.hit("probe:write:touching-end")
            return
        if len(set(wids)) >= 2:
            st.hit("probe:write:spanning-2+-objects")
        for wid in set(wids):
            w = self.w[wid]
            # extent of what remains of this writer around the new write
            ks = [c[1] for c in cov if c is not None and c[0] == wid]
            before = self.b.get((zone, a - 1))
            after = self.b.get((zone, a + n))
            has_before = before is not None and before[0] == wid and before[1] == ks[0] - 1
            has_after = after is not None and after[0] == wid and after[1] == ks[-1] + 1
            if len(set(wids)) == 1 and None not in cov:
                if has_before and has_after:
                    st.hit("probe:write:inside-one-object")
                elif not has_before and not has_after and ks[0] == 0 and ks[-1] == self.wlen(wid) - 1:
                    st.hit("probe:write:exact-overwrite")
            if w["kind"] == "expr":
                if has_before and has_after:
                    st.hit("probe:write:partial-expr-middle")
                elif has_after:
                    st.hit("probe:write:partial-expr-head")
                elif has_before:
                    st.hit("probe:write:partial-expr-tail")
                if (has_before or has_after) and w["en"] == -1:
                    st.hit("probe:write:bigendian-partial-cut")

    def wlen(self, wid):
        w = self.w[wid]
        return len(w["bytes"]) if w["kind"] == "raw" else desc_len(w["desc"])


# ---------------------------------------------------------------------------
# generation
# ---------------------------------------------------------------------------
ZONES = ["-", "p", "q"]  # "-" is the concrete zone (None)


class CaseGen(object):
    def __init__(self, rng):
        self.rng = rng
        self.reset()

    def reset(self):
        r = self.rng
        self.left = r.choice([1, 2, 3, 4, 6, 8, 12, 16, 24, 40])
        self.wcount = 0
        self.pending = []
        self.win = r.choice([24, 48, 96])
        self.zones = r.choice([["-"], ["-"], ["-", "p"], ["-", "p", "q"], ["p"]])
        self.maint = r.random() < 0.7
        self.started = False
        self.hist = []  # earlier symbolic writes (values are written again later)

    def fresh(self):
        self.wcount += 1
        return "w%d" % self.wcount

    def value(self, r, n):
        k = r.random()
        if k < 0.45:
            return {"k": "reg", "name": self.fresh(), "n": n}
        if k < 0.65 and n >= 2:
            a = r.randint(1, n - 1)
            return {"k": "comp", "parts": [[self.fresh(), a], [self.fresh(), n - a]]}
        if k < 0.85:
            return {"k": "op", "sym": r.choice("+-^&|"), "a": self.fresh(), "b": self.fresh(), "n": n}
        return {"k": "slc", "name": self.fresh(), "big": n + 2, "pos": 8, "n": n}

    def addr(self, r, zone):
        lo = 0 if zone == "-" else -16
        return r.randint(lo, self.win)

    def addrform(self, r, zone):
        if zone == "-":
            return r.choice(["int", "int", "cst", "ptrcst"])
        return "ptr"

    def write_op(self, r, zones=None):
        zone = r.choice(zones or self.zones)
        a = self.addr(r, zone)
        af = self.addrform(r, zone)
        k = r.random()
        n = r.choice([1, 1, 2, 2, 3, 4, 4, 5, 8, 8, 12, 16])
        if self.hist and r.random() < 0.14:
            # the same value again (programs store the same register repeatedly): at the same
            # place or nearby, with the same or the other endianness, whole or a byte slice of
            # it at the offset where that slice already lies
            old = r.choice(self.hist)
            op = dict(old)
            op["en"] = r.choice([old["en"], -old["en"]])
            e = old["e"]
            x = r.random()
            if e["k"] == "reg" and e["n"] >= 2 and x < 0.5:
                o = r.randrange(0, e["n"])
                l = r.randint(1, e["n"] - o)
                op["e"] = {"k": "slc", "name": e["name"], "big": e["n"], "pos": 8 * o, "n": l}
                op["a"] = old["a"] + (o if old["en"] == 1 else e["n"] - o - l)
            elif x < 0.8:
                op["a"] = old["a"] + r.choice([-2, -1, 1, 2])
            if op["z"] == "-":
                op["a"] = max(0, op["a"])
            op["again"] = True
            return op
        if k < 0.3:
            return {"op": "wb", "z": zone, "a": a, "af": af, "d": bytes(r.randrange(256) for _ in range(n)).hex()}
        if k < 0.42:
            return {"op": "wc", "z": zone, "a": a, "af": af, "v": r.getrandbits(n * 8), "n": n, "en": r.choice([1, -1])}
        op = {"op": "we", "z": zone, "a": a, "af": af, "e": self.value(r, n), "en": r.choice([1, 1, -1])}
        self.hist.append(op)
        return op

    def read_op(self, r):
        zone = r.choice(self.zones)
        a = self.addr(r, zone) - r.choice([0, 0, 2])
        if zone == "-":
            a = max(0, a)  # concrete addresses are unsigned
        return {"op": "rd", "z": zone, "a": a, "l": r.randint(1, 20), "af": self.addrform(r, zone)}

    def next(self, r, _state):
        if self.pending:
            return self.pending.pop(0)
        if not self.started:
            self.started = True
            return {"op": "case"}
        if self.left <= 0:
            self.reset_after = True
            self.reset()
            self.started = True
            self.pending = [{"op": "case"}]
            return {"op": "sweep"}
        self.left -= 1
        kinds = [("w", 10), ("rd", 2)]
        if self.maint:
            kinds += [("restruct", 1.2), ("copy", 1.0), ("shift", 0.8), ("merge", 0.8)]
        k = weighted(r, kinds)
        if k == "w":
            op = self.write_op(r)
        elif k == "rd":
            return self.read_op(r)
        elif k == "restruct":
            op = {"op": "restruct"}
        elif k == "copy":
            op = {"op": "copy"}
        elif k == "shift":
            op = {"op": "shift", "z": r.choice(self.zones), "k": r.choice([-3, -1, 1, 2, 5, 16])}
        else:
            op = {"op": "merge", "ops": [self.write_op(r) for _ in range(r.randint(1, 4))]}
        self.pending = [self.read_op(r) for _ in range(r.choice([1, 2, 2, 3]))]
        return op


def shrink_op(op):
    out = []
    if op.get("op") in ("wb",) and len(op["d"]) > 2:
        o = dict(op)
        o["d"] = op["d"][:-2]
        out.append(o)
    if op.get("op") == "we" and op["e"]["k"] != "reg":
        o = dict(op)
        n = desc_len(op["e"])
        nm = op["e"].get("name") or op["e"].get("a") or op["e"]["parts"][0][0]
        o["e"] = {"k": "reg", "name": nm, "n": n}
        out.append(o)
    if op.get("af") in ("cst", "ptrcst"):
        o = dict(op)
        o["af"] = "int"
        out.append(o)
    if op.get("en") == -1:
        o = dict(op)
        o["en"] = 1
        out.append(o)
    if op.get("op") == "rd" and op["l"] > 1:
        o = dict(op)
        o["l"] = op["l"] - 1
        out.append(o)
        o = dict(op)
        o["l"] = op["l"] - 1
        o["a"] = op["a"] + 1
        out.append(o)
    if op.get("op") == "merge" and len(op["ops"]) > 1:
        for i in range(len(op["ops"])):
            o = dict(op)
            o["ops"] = op["ops"][:i] + op["ops"][i + 1 :]
            out.append(o)
    return out


# ---------------------------------------------------------------------------
# execution
# ---------------------------------------------------------------------------
class Failure(Exception):
    def __init__(self, vclass, sig, detail):
        Exception.__init__(self, vclass)
        self.vclass = vclass
        self.sig = sig
        self.detail = detail


class Case(object):
    def __init__(self, st):
        from amoco.system.memory import MemoryMap
        from amoco.cas.expressions import reg

        self.MemoryMap = MemoryMap
        self.regs = {"p": reg("p", 32), "q": reg("q", 32)}
        self.writers = {}
        self.M = MemoryMap()
        self.model = Model(self.writers)
        self.others = []
        self.st = st
        self.nw = 0
        self.overlaps = 0
        self.reads_defined = 0
        self.wid = 0
        self.log = EventLog()

    def mkaddr(self, zone, a, af):
        from amoco.cas.expressions import cst, ptr

        if zone == "-":
            if af == "int":
                return a
            if af == "cst":
                return cst(a, 32)
            if af == "ptrcst":
                base = a // 2
                return ptr(cst(base, 32), disp=a - base)
            return a
        return ptr(self.regs[zone], disp=a)

    def do_write(self, M, model, op, classify=True):
        from amoco.cas.expressions import cst

        zone, a = op["z"], op["a"]
        addr = self.mkaddr(zone, a, op.get("af", "int"))
        self.wid += 1
        wid = self.wid
        if op["op"] == "wb":
            d = bytes.fromhex(op["d"])
            n = len(d)
            self.writers[wid] = {"kind": "raw", "bytes": list(d)}
            args = (addr, d)
        elif op["op"] == "wc":
            n = op["n"]
            self.writers[wid] = {"kind": "raw", "bytes": to_bytes(op["v"], n, op["en"])}
            args = (addr, cst(op["v"], n * 8), op["en"])
        else:
            n = desc_len(op["e"])
            self.writers[wid] = {"kind": "expr", "desc": op["e"], "en": op["en"]}
            args = (addr, build_exp(op["e"]), op["en"])
        if classify:
            if any((zone, a + k) in model.b for k in range(n)):
                self.overlaps += 1
            model.classify(zone, a, n, self.st)
        M.write(*args)
        model.write(zone, a, wid, n)
        self.nw += 1

    def flatten(self, M, model, zone, a, l, af):
        """read [a, a+l) and return, for both valuations, the per-byte values"""
        addr = self.mkaddr(zone, a, af)
        try:
            res = M.read(addr, l)
        except MemoryError:
            key = None if zone == "-" else self.regs[zone]
            if key in M._zones:
                raise
            return [[None] * l, [None] * l], "MemoryError"
        out = [[], []]
        shape = []
        for p in res:
            if isinstance(p, (bytes, bytearray)):
                for o in out:
                    o.extend(p)
                shape.append("b%d" % len(p))
                continue
            if p.size % 8 != 0:
                raise Failure("read-shape", "memsim:chunk-size-not-multiple-of-8", {"chunk": str(p), "size": p.size})
            L = p.size // 8
            if not p._is_def:
                for o in out:
                    o.extend([None] * L)
                shape.append("u%d" % L)
                continue
            en = model.endian_at(zone, a + len(out[0]))
            shape.append("e%d" % L)
            for vi in range(2):
                try:
                    out[vi].extend(to_bytes(ev(p, vi), L, en))
                except Unsupported as u:
                    raise Failure("read-shape", "memsim:chunk-not-interpretable", {"chunk": str(p), "why": str(u)})
        return out, "".join(shape)

    def check_read(self, M, model, zone, a, l, af, tag):
        out, shape = self.flatten(M, model, zone, a, l, af)
        for vi in range(2):
            if len(out[vi]) != l:
                raise Failure(
                    "read-length",
                    "memsim:read-length",
                    {"tag": tag, "zone": zone, "addr": a, "len": l, "returned": len(out[vi])},
                )
            for i in range(l):
                want = model.expected(zone, a + i, vi)
                if out[vi][i] != want:
                    x = model.b.get((zone, a + i))
                    kind = "undefined-expected" if want is None else ("defined-expected-got-undefined" if out[vi][i] is None else "wrong-byte")
                    raise Failure(
                        "read-mismatch",
                        "memsim:%s:%s" % (tag, kind),
                        {
                            "tag": tag,
                            "zone": zone,
                            "addr": a,
                            "len": l,
                            "byte": i,
                            "got": out[vi][i],
                            "want": want,
                            "valuation": vi,
                            "writer": self.writers.get(x[0]) if x else None,
                            "writer_byte": x[1] if x else None,
                            "shape": shape,
                        },
                    )
        # read probes
        if out[0] and out[0][0] is None and any(v is not None for v in out[0]):
            self.st.hit("probe:read:starts-in-hole")
        if out[0] and out[0][-1] is None and any(v is not None for v in out[0]):
            self.st.hit("probe:read:ends-in-hole")
        if "b" in shape and "e" in shape and shape.index("b") < shape.rindex("e") < shape.rindex("b"):
            self.st.hit("probe:read:raw+expr+raw")
        if any(v is not None for v in out[0]):
            self.reads_defined += 1
        return shape

    def sweep(self):
        lo, hi = -20, 120
        for zone in ZONES:
            for (M, model, tag) in [(self.M, self.model, "sweep")] + [(m, mo, "original-after-copy") for (m, mo) in self.others]:
                # only sweep zones that exist somewhere
                if not any(z == zone for (z, _) in model.b):
                    continue
                a0 = 0 if zone == "-" else lo
                sh = self.check_read(M, model, zone, a0, hi - a0, "ptr" if zone != "-" else "int", tag)
                self.log.event("sweep", zone, tag, sh)
                if tag != "sweep":
                    self.st.hit("probe:copy:original-rechecked-after-later-writes")

    def step(self, op):
        k = op["op"]
        st = self.st
        if k in ("wb", "wc", "we"):
            self.do_write(self.M, self.model, op)
            self.log.event(op)
            st.hit("ops:write")
            if op.get("again"):
                st.hit("probe:write:same-value-again")
        elif k == "rd":
            sh = self.check_read(self.M, self.model, op["z"], op["a"], op["l"], op.get("af", "int"), "read")
            self.log.event(op, sh)
            st.hit("ops:read")
        elif k == "restruct":
            before = sum(len(z._map) for z in self.M._zones.values())
            self.M.restruct()
            after = sum(len(z._map) for z in self.M._zones.values())
            if after < before:
                st.hit("probe:restruct:merged")
            st.hit("maintenance:restruct")
            self.log.event(op, before, after)
        elif k == "copy":
            self.others.append((self.M, self.model))
            self.M = self.M.copy()
            self.model = self.model.copy()
            st.hit("maintenance:copy")
            self.log.event(op)
        elif k == "shift":
            zone = op["z"]
            key = None if zone == "-" else self.regs[zone]
            z = self.M._zones.get(key)
            if z is None or not z._map:
                self.log.event(op, "skipped")
                return
            if zone == "-" and any(m.vaddr + op["k"] < 0 for m in z._map):
                self.log.event(op, "skipped")
                return
            z.shift(op["k"])
            self.model.shift(zone, op["k"])
            st.hit("maintenance:shift")
            st.hit("probe:shift:applied")
            self.log.event(op)
        elif k == "merge":
            O = self.MemoryMap()
            om = Model(self.writers)
            for w in op["ops"]:
                self.do_write(O, om, w, classify=False)
            if any(key in self.model.b for key in om.b):
                st.hit("probe:merge:overlapping")
            self.M.merge(O)
            self.model.overlay(om)
            st.hit("maintenance:merge")
            self.log.event(op)
        elif k == "sweep":
            self.sweep()
        else:
            raise ValueError("unknown op %r" % (op,))


def run(spec):
    rng = random.Random(spec.get("seed", 0))
    gen = CaseGen(rng)
    budget = [spec.get("cases", 100)]

    def g(r, _):
        op = gen.next(r, None)
        if op["op"] == "case":
            if budget[0] <= 0:
                return None
            budget[0] -= 1
        return op

    src = OpSource(spec, g)
    st = Stats()
    wlog = EventLog()
    digests = []
    case = None
    case_start = 0
    viol = None
    sample = None
    steps = 0

    def close(case):
        if case is None:
            return
        st.hit("cases")
        if case.nw >= 2 and case.overlaps >= 1 and case.reads_defined >= 1:
            digests.append(case.log.digest())
            st.hit("cases-nontrivial")
        wlog.event(case.log.digest())

    while True:
        op = src.next()
        if op is None:
            break
        if op["op"] == "case":
            close(case)
            case = Case(st)
            case_start = len(src.trace) - 1
            continue
        if case is None:
            case = Case(st)
            case_start = len(src.trace) - 1
        steps += 1
        try:
            case.step(op)
        except Failure as f:
            viol = {"class": f.vclass, "signature": f.sig, "detail": dict(f.detail, op=op)}
        except Exception as e:
            tb = traceback.extract_tb(e.__traceback__)
            fr = [t for t in tb if "/amoco/" in t.filename]
            where = "%s:%s" % (fr[-1].filename.split("/amoco/")[-1], fr[-1].name) if fr else "harness"
            if not fr:
                raise
            viol = {
                "class": "exception",
                "signature": "memsim:exception:%s@%s" % (type(e).__name__, where),
                "detail": {"op": op, "exception": "%s: %s" % (type(e).__name__, e), "tb": traceback.format_exc()[-1500:]},
            }
        if viol:
            break
        if sample is None and spec.get("want_sample") and steps == 12:
            sample = src.trace[case_start:]
    if viol is None:
        close(case)
    res = {
        "status": "violation" if viol else "ok",
        "digest": wlog.digest(),
        "steps": steps,
        "nontrivial": len(digests) > 0,
        "case_digests": digests,
        "cases": st.c["cases"] + (1 if viol else 0),
        "stats": st.as_dict(),
        "seed": spec.get("seed"),
        "config": {},
    }
    if viol:
        res["violation"] = viol
        # cases are independent: the failing case alone is the trace
        res["trace"] = src.trace[case_start:]
    elif sample is not None:
        res["sample"] = sample
    return res
