"""aliassim -- C09: stores and loads through symbolic pointers under aliasing.

A case is a load/store *program* over pointer registers p,q,r (with offsets,
pointer arithmetic, access sizes 8..64 bits, values = constants, value-register
slices or previously loaded registers, optional cut points where the map is
ended and later composed with >>), executed symbolically by amoco's mapper.
The environment then *reveals* a concrete pointer assignment -- all equal,
partially overlapping, adjacent or disjoint, chosen adversarially after the
fact -- plus concrete initial memory and register values.  Every loaded value
and the final memory of (concrete >> symbolic) must equal a sequential
bytearray execution.  A value that stays a ``mem`` with ``mods`` is interpreted
by an independent replay of its mods list.
"""
import random
import traceback

from ..world import EventLog, Stats, OpSource, weighted
from ..supervisor import run_seed

PROPERTY_IDS = ["C09"]
LEVEL = "exploration"
WORLD_TIMEOUT = 300
WORLD_PIPE = None
CONTEXT_OPS = ()

BASE = 0x1000
MEMSZ = 256

RULE = (
    "one case = a program of 1..10 store/load/pointer-move/cut instructions over 2-3 pointer registers (32 or 64 bit), "
    "sizes 8..64 bits, one endianness per case, executed symbolically (single map, and cut pieces composed with >>), then a "
    "seeded concrete reveal (equal / overlap-by-k / adjacent / disjoint pointers, initial memory, register values); every "
    "loaded register and the 256-byte memory window of concrete >> symbolic are compared with a bytearray execution, results that "
    "stay mem-with-mods are replayed by an independent interpreter. Cases inside an open known-finding carve-out (T1/T2/T3) are "
    "counted as carved, not compared. Non-trivial: >= 1 store and >= 1 load through different pointer registers and >= 1 decided "
    "comparison; distinct = distinct (program, reveal, config) digests."
)
ASSUMPTIONS = [
    "under noaliasing=True only reveals with pairwise disjoint pointer windows are generated, as the property states",
    "with memtrace=False (and noaliasing=True) stores are by configuration not carried through >>: the final memory is then not compared, only loaded values are",
    "carve-out predicates are evaluated after the reveal on concrete addresses and over-approximate the known defects' trigger regions",
    "results that remain symbolic for another reason than mem-with-mods are counted as incomparable, not as failures",
    "no I/O seam: the adversary is the late pointer resolution (reveal kinds are reported where fault kinds would be)",
    "sampling, not proof",
]
REAL_VS_STUB = {
    "real": ["amoco.cas.mapper (__setitem__/__getitem__/M/aliasing/_Mem_read/_Mem_write/eval/rcompose/use/>>)", "amoco.cas.expressions mem.eval (mods replay), ptr", "amoco.system.memory.MemoryMap"],
    "stub": ["concrete backing memory: one constant of 256 bytes written into the concrete map"],
    "absent": ["network", "clock", "threads", "disk I/O"],
}
PROBES = {
    "C09": [
        "read-carrying-mods",
        "read-without-mods-same-base",
        "reveal:later-store-aliases-earlier-load",
        "reveal:two-keys-same-address",
        "bigendian-subword-load",
        "composed-pieces",
        "pointer-moved",
        "stored-loaded-value",
        "mods-interpreted",
        "index-form-load",
        "result-registers-preassigned",
    ]
}
KNOWN_PREDICATES = {
    "T1": "a store narrower than an earlier store to the same concrete start address",
    "T2": "a load wider than the latest store to the same pointer key (repaired by 90639ed; the predicate is kept for reporting only and is applied only while an open entry lists it)",
    "T3": "any big-endian store",
}


def plan(prop, tier, seed):
    n, cases = (32, 650) if tier == "quick" else (320, 1800)
    return [{"kind": "random", "seed": run_seed(seed, prop, tier, i), "cases": cases, "want_sample": i < 2} for i in range(n)]


def zygote_init():
    import amoco.cas.mapper  # noqa


# ---------------------------------------------------------------------------
# generation
# ---------------------------------------------------------------------------
def gen_case(r):
    np_ = r.choice([2, 2, 3])
    psize = r.choice([32, 32, 64])
    noalias = r.random() < 0.2
    memtrace = True if not noalias else r.random() < 0.6
    en = r.choice([1, 1, 1, -1])
    prog = []
    nld = 0
    # a program either is cut into composed pieces or may use index-form loads
    # m[mem(p+off)] (p taken as an input of the map, i.e. before any pointer move)
    style = r.choice(["cut", "index", "index"])
    for k in range(r.choice([1, 2, 3, 4, 5, 6, 7, 8, 10])):
        x = r.random()
        pi = r.randrange(np_)
        off = r.randint(-3, 6)
        sz = r.choice([8, 16, 32, 32, 64])
        if x < 0.5:
            y = r.random()
            if y < 0.4:
                val = ["c", r.getrandbits(sz)]
            elif y < 0.8 or nld == 0:
                val = ["v", r.randrange(3)]
            else:
                lds = [(j, ins) for j, ins in enumerate(prog) if ins[0] in ("ld", "ldi") and ins[3] >= sz]
                if lds:
                    j, _ = r.choice(lds)
                    val = ["o", j]
                else:
                    val = ["v", r.randrange(3)]
            prog.append(["st", pi, off, sz, val])
        elif x < 0.88:
            prog.append(["ldi" if (style == "index" and r.random() < 0.35) else "ld", pi, off, sz])
            nld += 1
        elif x < 0.95:
            prog.append(["mv", pi, r.choice([-4, -2, -1, 1, 2, 4])])
        elif style == "cut":
            prog.append(["cut"])
    # the reveal: chosen after the program, biased to the interesting cases
    kind = "disjoint" if noalias else weighted(r, [("equal", 3), ("overlap", 4), ("adjacent", 2), ("disjoint", 1.5), ("random", 2)])
    base0 = BASE + 96
    if kind == "disjoint":
        pa = [BASE + 40 + 72 * i for i in range(np_)]
        r.shuffle(pa)
    elif kind == "equal":
        pa = [base0] * np_
        if np_ == 3 and r.random() < 0.5:
            pa[2] = base0 + r.randint(-8, 8)
    elif kind == "overlap":
        pa = [base0] + [base0 + r.choice([-7, -5, -3, -2, -1, 1, 2, 3, 5, 7]) for _ in range(np_ - 1)]
    elif kind == "adjacent":
        pa = [base0] + [base0 + r.choice([-8, -4, -2, -1, 1, 2, 4, 8]) for _ in range(np_ - 1)]
    else:
        pa = [base0 + r.randint(-12, 12) for _ in range(np_)]
    return {
        "op": "case",
        "np": np_,
        "psize": psize,
        "noalias": noalias,
        "memtrace": memtrace,
        "endian": en,
        "prog": prog,
        # the result registers of the loads exist in the map before the program starts
        # (registers are reused in real code): no new register key is appended later
        "preassign": r.random() < 0.5,
        "reveal": {"kind": kind, "pa": pa, "vv": [r.getrandbits(64) for _ in range(3)], "mem_seed": r.getrandbits(32)},
    }


def shrink_op(op):
    out = []
    prog = op["prog"]
    for i in range(len(prog)):
        # dropping an instruction shifts the indices used by ["o", j] values
        new = []
        ok = True
        for j, ins in enumerate(prog):
            if j == i:
                continue
            if ins[0] == "st" and ins[4][0] == "o":
                t = ins[4][1]
                if t == i:
                    ok = False
                    break
                if t > i:
                    ins = ins[:4] + [["o", t - 1]]
            new.append(ins)
        if ok:
            o = dict(op)
            o["prog"] = new
            out.append(o)
    if op["np"] == 3:
        if not any(ins[0] != "cut" and ins[1] == 2 for ins in prog):
            o = dict(op)
            o["np"] = 2
            o["reveal"] = dict(op["reveal"], pa=op["reveal"]["pa"][:2])
            out.append(o)
    if op["psize"] == 64:
        o = dict(op)
        o["psize"] = 32
        out.append(o)
    for i, ins in enumerate(prog):
        if ins[0] == "st" and ins[4][0] == "c" and ins[4][1] not in (0, 1):
            o = dict(op)
            o["prog"] = prog[:i] + [ins[:4] + [["c", 1]]] + prog[i + 1 :]
            out.append(o)
    return out


# ---------------------------------------------------------------------------
# model + predicates (no amoco)
# ---------------------------------------------------------------------------
def mem0_of(seed):
    r = random.Random(seed)
    return bytes(r.randrange(256) for _ in range(MEMSZ))


def run_model(case):
    rv = case["reveal"]
    en = case["endian"]
    bo = "little" if en == 1 else "big"
    ba = bytearray(mem0_of(rv["mem_seed"]))
    pa = list(rv["pa"])
    pa0 = list(pa)
    loads = {}
    for k, ins in enumerate(case["prog"]):
        if ins[0] == "ldi":
            _, pi, off, sz = ins
            a = pa0[pi] + off - BASE
            loads[k] = int.from_bytes(ba[a : a + sz // 8], bo)
            continue
        if ins[0] == "st":
            _, pi, off, sz, val = ins
            if val[0] == "c":
                x = val[1]
            elif val[0] == "v":
                x = rv["vv"][val[1]] & ((1 << sz) - 1)
            else:
                x = loads[val[1]] & ((1 << sz) - 1)
            a = pa[pi] + off - BASE
            ba[a : a + sz // 8] = x.to_bytes(sz // 8, bo)
        elif ins[0] == "ld":
            _, pi, off, sz = ins
            a = pa[pi] + off - BASE
            loads[k] = int.from_bytes(ba[a : a + sz // 8], bo)
        elif ins[0] == "mv":
            pa[ins[1]] += ins[2]
    return loads, bytes(ba)


def predicates(case):
    """which known-finding carve-outs does this (program, reveal) fall into"""
    rv = case["reveal"]
    pa = list(rv["pa"])
    cum = [0] * case["np"]
    sts = []  # (concrete addr, size, key)
    hit = set()
    for ins in case["prog"]:
        if ins[0] == "st":
            _, pi, off, sz, val = ins
            a = pa[pi] + off
            key = (pi, cum[pi] + off)
            for (a2, s2, _) in sts:
                if a2 == a and sz < s2:
                    hit.add("T1")
            sts.append((a, sz, key))
            if case["endian"] == -1:
                hit.add("T3")
        elif ins[0] in ("ld", "ldi"):
            _, pi, off, sz = ins
            key = (pi, (cum[pi] if ins[0] == "ld" else 0) + off)
            last = None
            for (a2, s2, k2) in sts:
                if k2 == key:
                    last = s2
            if last is not None and sz > last:
                hit.add("T2")
        elif ins[0] == "mv":
            pa[ins[1]] += ins[2]
            cum[ins[1]] += ins[2]
    return hit


def scenario_probes(case, st):
    rv = case["reveal"]
    pa = list(rv["pa"])
    cum = [0] * case["np"]
    seen_ld = []  # (addr, size, pi)
    keys = {}
    last_store_key = None
    for ins in case["prog"]:
        if ins[0] == "st":
            _, pi, off, sz, val = ins
            a = pa[pi] + off
            key = (pi, cum[pi] + off)
            for (la, lsz, lpi) in seen_ld:
                if lpi != pi and la < a + sz // 8 and a < la + lsz // 8:
                    st.hit("probe:reveal:later-store-aliases-earlier-load")
            for k2, a2 in keys.items():
                if k2 != key and a2 == a:
                    st.hit("probe:reveal:two-keys-same-address")
            keys[key] = a
            if val[0] == "o":
                st.hit("probe:stored-loaded-value")
        elif ins[0] in ("ld", "ldi"):
            _, pi, off, sz = ins
            if ins[0] == "ldi":
                st.hit("probe:index-form-load")
            seen_ld.append(((pa[pi] if ins[0] == "ld" else rv["pa"][pi]) + off, sz, pi))
            if case["endian"] == -1 and sz < 32:
                st.hit("probe:bigendian-subword-load")
        elif ins[0] == "mv":
            pa[ins[1]] += ins[2]
            cum[ins[1]] += ins[2]
            st.hit("probe:pointer-moved")


# ---------------------------------------------------------------------------
# symbolic execution with amoco + interpretation of the results
# ---------------------------------------------------------------------------
class Incomparable(Exception):
    pass


def interp(e, mem0, psize, st, depth=0):
    """independent interpreter: cst / comp / slc / mem-with-mods (concrete addresses)"""
    if depth > 40:
        raise Incomparable("depth")
    if e._is_cst:
        return e.v & ((1 << e.size) - 1)
    if e._is_cmp:
        r = 0
        for (a, b), p in e.parts.items():
            r |= (interp(p, mem0, psize, st, depth + 1) & ((1 << (b - a)) - 1)) << a
        return r
    if e._is_slc:
        return (interp(e.x, mem0, psize, st, depth + 1) >> e.pos) & ((1 << e.size) - 1)
    if e._is_mem:
        if not e.a.base._is_cst:
            raise Incomparable("symbolic address")
        pm = (1 << psize) - 1
        mm = bytearray(mem0)
        for loc, v in e.mods:
            if not (loc._is_ptr and loc.base._is_cst):
                raise Incomparable("symbolic mod location")
            ad = ((loc.base.v + loc.disp) & pm) - BASE
            x = interp(v, mem0, psize, st, depth + 1)
            n = v.size // 8
            if ad < 0 or ad + n > MEMSZ:
                raise Incomparable("mod outside window")
            # a recorded store carries no endianness of its own: program stores have the
            # case's endianness (= the read's), the initial-memory window was written little
            mm[ad : ad + n] = x.to_bytes(n, "little" if (e.endian == 1 or v.size == MEMSZ * 8) else "big")
        ad = ((e.a.base.v + e.a.disp) & pm) - BASE
        n = e.size // 8
        if ad < 0 or ad + n > MEMSZ:
            raise Incomparable("load outside window")
        if e.mods:
            st.hit("probe:mods-interpreted")
        return int.from_bytes(mm[ad : ad + n], "little" if e.endian == 1 else "big")
    raise Incomparable(type(e).__name__)


def symbolic(case, composed, st):
    """-> (final mapper = concrete >> symbolic, [(k, reg)])"""
    from amoco.cas.mapper import mapper
    from amoco.cas.expressions import reg, cst, mem

    psize = case["psize"]
    en = case["endian"]
    P = [reg(n, psize) for n in ("p", "q", "r")[: case["np"]]]
    V = [reg("v%d" % i, 64) for i in range(3)]
    m = mapper()
    pieces = []
    outs = []
    oregs = {}
    seen_keys = set()
    if case.get("preassign"):
        for k, ins in enumerate(case["prog"]):
            if ins[0] in ("ld", "ldi"):
                m[reg("o%d" % k, ins[3])] = cst(0, ins[3])
        st.hit("probe:result-registers-preassigned")
    for k, ins in enumerate(case["prog"]):
        if ins[0] == "ldi":
            _, pi, off, sz = ins
            r_ = reg("o%d" % k, sz)
            oregs[k] = r_
            outs.append((k, r_))
            x = m[mem(P[pi] + off, sz, endian=en)]
            if x._is_mem and x.mods:
                st.hit("probe:read-carrying-mods")
            m[r_] = x
            continue
        if ins[0] == "st":
            _, pi, off, sz, val = ins
            if val[0] == "c":
                v = cst(val[1], sz)
            elif val[0] == "v":
                v = V[val[1]][0:sz]
            else:
                v = oregs[val[1]][0:sz]
            loc = mem(P[pi] + off, sz, endian=en)
            before = len(m)
            m[loc] = m(v)
        elif ins[0] == "ld":
            _, pi, off, sz = ins
            r_ = reg("o%d" % k, sz)
            oregs[k] = r_
            outs.append((k, r_))
            x = m(mem(P[pi] + off, sz, endian=en))
            if x._is_mem and x.mods:
                st.hit("probe:read-carrying-mods")
            elif not x._is_mem:
                st.hit("probe:read-without-mods-same-base")
            m[r_] = x
        elif ins[0] == "mv":
            m[P[ins[1]]] = m(P[ins[1]] + ins[2])
        elif ins[0] == "cut" and composed:
            pieces.append(m)
            m = mapper()
    pieces.append(m)
    M = pieces[0]
    for nxt in pieces[1:]:
        M = M >> nxt
        st.hit("probe:composed-pieces")
    # concrete environment
    rv = case["reveal"]
    prev = mapper()
    mem0 = mem0_of(rv["mem_seed"])
    prev[mem(cst(BASE, psize), MEMSZ * 8)] = cst(int.from_bytes(mem0, "little"), MEMSZ * 8)
    for r_, a in zip(P, rv["pa"]):
        prev[r_] = cst(a, psize)
    for r_, a in zip(V, rv["vv"]):
        prev[r_] = cst(a, 64)
    final = prev >> M
    return final, outs, mem0


def run_case(case, st, known):
    """-> (status, violation, decided, incomparable)"""
    from amoco.cas.mapper import conf
    from amoco.cas.expressions import cst, mem

    hit = predicates(case)
    carved = sorted(hit & set(known))
    if carved:
        for c in carved:
            st.hit("carved:" + c)
        return "carved", None, 0, 0
    scenario_probes(case, st)
    loads, final_mem = run_model(case)
    saved = (conf.Cas.noaliasing, conf.Cas.memtrace)
    decided = 0
    incomparable = 0
    psize = case["psize"]
    try:
        conf.Cas.noaliasing = bool(case["noalias"])
        conf.Cas.memtrace = bool(case["memtrace"])
        # with memtrace=False (and noaliasing=True) stores are, by configuration, not
        # carried through >>: composition across a cut is then not comparable
        carry = case["memtrace"] or not case["noalias"]
        for composed in ([False, True] if (carry and any(i[0] == "cut" for i in case["prog"])) else [False]):
            final, outs, mem0 = symbolic(case, composed, st)
            route = "composed" if composed else "single"
            for k, r_ in outs:
                got = final(r_)
                try:
                    x = interp(got, mem0, psize, st)
                except Incomparable:
                    incomparable += 1
                    continue
                decided += 1
                if x != loads[k]:
                    kind = "constant-load" if got._is_cst else "mods-replayed-load"
                    return (
                        "violation",
                        {
                            "class": "loaded-value-differs",
                            "signature": "aliassim:%s:%s" % (kind, cfg_label(case)),
                            "detail": {"route": route, "instr": k, "got": hex(x), "want": hex(loads[k]), "expr": str(got)[:300], "predicates": sorted(hit)},
                        },
                        decided,
                        incomparable,
                    )
            if case["memtrace"] or not case["noalias"]:
                for off in range(0, MEMSZ, 8):
                    got = final(mem(cst(BASE + off, psize), 64))
                    try:
                        x = interp(got, mem0, psize, st)
                    except Incomparable:
                        incomparable += 1
                        continue
                    decided += 1
                    want = int.from_bytes(final_mem[off : off + 8], "little")
                    if x != want:
                        return (
                            "violation",
                            {
                                "class": "final-memory-differs",
                                "signature": "aliassim:final-memory:%s" % cfg_label(case),
                                "detail": {"route": route, "offset": off, "got": hex(x), "want": hex(want), "expr": str(got)[:300], "predicates": sorted(hit)},
                            },
                            decided,
                            incomparable,
                        )
    finally:
        conf.Cas.noaliasing, conf.Cas.memtrace = saved
    return "ok", None, decided, incomparable


def cfg_label(case):
    return "%s-%s-%s" % ("noalias" if case["noalias"] else "alias", "memtrace" if case["memtrace"] else "nomemtrace", "le" if case["endian"] == 1 else "be")


def run(spec):
    rng = random.Random(spec.get("seed", 0))
    known = spec.get("known_keys", [])
    left = [spec.get("cases", 100)]

    def g(r, _):
        if left[0] <= 0:
            return None
        left[0] -= 1
        return gen_case(r)

    src = OpSource(spec, g)
    st = Stats()
    wlog = EventLog()
    digests = []
    viol = None
    sample = None
    ncases = 0
    survey = {}
    while True:
        case = src.next()
        if case is None:
            break
        ncases += 1
        try:
            status, v, decided, incomp = run_case(case, st, known)
        except Exception as e:
            tb = traceback.extract_tb(e.__traceback__)
            fr = [t for t in tb if "/amoco/" in t.filename]
            if not fr:
                raise
            where = "%s:%s" % (fr[-1].filename.split("/amoco/")[-1], fr[-1].name)
            status, decided, incomp = "violation", 0, 0
            v = {
                "class": "exception",
                "signature": "aliassim:exception:%s@%s" % (type(e).__name__, where),
                "detail": {"exception": "%s: %s" % (type(e).__name__, e), "tb": traceback.format_exc()[-1500:], "predicates": sorted(predicates(case))},
            }
        st.hit("cases")
        st.hit("status:" + status)
        st.hit("decided-comparisons", decided)
        st.hit("incomparable", incomp)
        st.hit("config:" + cfg_label(case))
        st.hit("fault:reveal-" + case["reveal"]["kind"])
        d = EventLog()
        d.event(case["prog"], case["reveal"], cfg_label(case), case["psize"], status, decided)
        wlog.event(d.digest())
        prs = set(i[1] for i in case["prog"] if i[0] in ("st",))
        prl = set(i[1] for i in case["prog"] if i[0] in ("ld", "ldi"))
        if status == "ok" and decided >= 1 and prs and prl and (len(prs | prl) >= 2):
            digests.append(d.digest())
            st.hit("cases-nontrivial")
        if v is not None:
            if spec.get("survey"):
                sg = v["signature"] + " preds=" + ",".join(v["detail"].get("predicates", []))
                st.hit("survey:" + sg)
                if sg not in survey:
                    survey[sg] = {"case": case, "detail": v["detail"]}
                continue
            viol = v
            break
        if sample is None and spec.get("want_sample") and status == "ok" and len(case["prog"]) >= 4:
            sample = case
    res = {
        "status": "violation" if viol else "ok",
        "digest": wlog.digest(),
        "steps": ncases,
        "nontrivial": len(digests) > 0,
        "case_digests": digests,
        "cases": ncases,
        "stats": st.as_dict(),
        "seed": spec.get("seed"),
        "config": {},
    }
    if survey:
        res["survey"] = survey
    if viol:
        res["violation"] = viol
        res["trace"] = [src.trace[-1]]
    elif sample is not None:
        res["sample"] = sample
    return res


def finalize_coverage(prop, tier, cov, specs, results):
    c = cov["counters"]
    cov["decided_comparisons"] = c.get("decided-comparisons", 0)
    cov["incomparable"] = c.get("incomparable", 0)
    cov["carved"] = {k[7:]: v for k, v in c.items() if k.startswith("carved:")}
    cov["reveal_kinds"] = cov["fault_kinds"]
    cov["known_predicates"] = KNOWN_PREDICATES
