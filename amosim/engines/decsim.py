"""decsim -- C11: decoding has no memory of earlier calls.

World: one ISA's shared ``cpu.disassemble`` object (the one real users call).
Ops: decode calls drawn from pools (valid spec-driven encodings with prefixes,
the same cut at every length, undecodable strings, prefix-only strings, mode
switches), with injected setup-function faults.  Oracles:

 (1) memoryless reference: the outcome of every call equals the outcome of the
     same call (same bytes, mode, fault decision) on a never-called shallow
     copy of the decoder taken when the world started;
 (2) pristine reference world: sampled calls are repeated as the *first* call
     of a fresh fork of the zygote (no history at all, not even in spec
     objects or module globals) and must give the same outcome;
 (3) a returned instruction's bytes are a prefix of the input of *this* call.
"""
import copy
import functools
import hashlib
import random
import traceback

from ..world import EventLog, Stats, SimFault, OpSource, RefServer, weighted
from ..supervisor import run_seed

PROPERTY_IDS = ["C11"]
LEVEL = "exploration"
WORLD_TIMEOUT = 300
WORLD_PIPE = None
CONTEXT_OPS = ("episode",)

RULE = (
    "one world = one forked process running back-to-back episodes (cases); one episode = a history of 2..60 "
    "decode calls on one ISA's shared disassembler object (10%: on a fresh decoder object), preceded by "
    "everything the process decoded before (spec-driven valid encodings with 0-4 prefixes, every-length truncations, "
    "prefix-only and random strings, ARM/Thumb mode switches, injected setup-function faults), "
    "each call compared with a never-called copy of the decoder and sampled calls with a pristine "
    "forked process; thorough adds all ordered pairs of a per-ISA pool as 2-call histories. "
    "A run is non-trivial when it made >= 2 decode calls of which >= 1 returned an instruction and, "
    "in fault configurations, >= 1 fault (truncation, rejection, natural or injected setup failure) "
    "landed inside a call; distinct = distinct event-log digests."
)
ASSUMPTIONS = [
    "the reference decoder is a shallow copy of the shared disassembler taken before its first call; it shares the spec tree",
    "the pristine oracle relies on fork() giving the post-import process state",
    "decode modes are selected through the cpu modules' own selectors: armv7 env.internals[isetstate / itstate / ibigend], armv8 ibigend, x86 / x64 env.internals['mode'] (32/16, 64/32/16); a mode label sets all of them",
    "sampling, not proof: histories are seeded samples; the pair layer is exhaustive only over its stated pool",
]
REAL_VS_STUB = {
    "real": ["amoco.arch.core.disassembler.__call__", "amoco.arch.core.ispec.decode", "every spec module and setup function of every importable cpu module"],
    "stub": ["fault trampolines wrapped around ispec.hook (functools.wraps)", "fetch window = the byte string handed to disassemble()"],
    "absent": ["network", "clock", "threads (not present in the anchored code)"],
}
PROBES = {
    "C11": [
        "call-after-injected-fault",
        "call-after-natural-raise",
        "call-after-truncated-prefix",
        "call-after-reject-with-prefix",
        "prefix-instruction-decoded",
        "mode-switch",
        "xdata-call",
        "pristine-compared",
        "recurring-call-compared",
        "shuffled-batch-compared",
        "overlapping-specs-input",
    ]
}

# ISA weights: the ones with prefix / suffix specs or modes get more runs
ISA_WEIGHTS = {
    "amoco.arch.x86.cpu_x86": 6,
    "amoco.arch.x64.cpu_x64": 6,
    "amoco.arch.z80.cpu_z80": 3,
    "amoco.arch.wasm.cpu": 3,
    "amoco.arch.arm.cpu_armv7": 3,
}


# ---------------------------------------------------------------------------
def plan(prop, tier, seed):
    n, calls = (32, 20000) if tier == "quick" else (240, 40000)
    specs = [{"kind": "random", "seed": run_seed(seed, prop, tier, i), "calls": calls, "want_sample": i < 3} for i in range(n)]
    # pair layer: a seeded slice in quick, everything in thorough
    from ..isa import CPU_MODULES

    pool_n = 48 if tier == "quick" else 160
    per_world = 2304 if tier == "quick" else 6400
    k = 0
    for isa in CPU_MODULES[:22]:
        total = pool_n * pool_n
        for start in range(0, total, per_world):
            specs.append(
                {
                    "kind": "pairs",
                    "isa": isa,
                    "pool_seed": run_seed(seed, prop, "pool", 0),
                    "pool_n": pool_n,
                    "start": start,
                    "count": per_world,
                    "seed": run_seed(seed, prop, tier + "-pairs", k),
                }
            )
            k += 1
    return specs


def zygote_init():
    from .. import isa

    isa.load_all()


# ---------------------------------------------------------------------------
# fault trampolines
# ---------------------------------------------------------------------------
class Arm(object):
    count = None  # None = disarmed; n = the n-th hook invocation from now raises
    exc = "SimFault"
    fired = 0


def _trampoline(h):
    @functools.wraps(h)
    def t(*a, **k):
        if Arm.count is not None:
            if Arm.count <= 0:
                Arm.count = None
                Arm.fired += 1
                if Arm.exc == "MemoryError":
                    raise MemoryError("injected allocation failure")
                raise SimFault("injected setup fault")
            Arm.count -= 1
        return h(*a, **k)

    t._amosim_wrapped = True
    return t


def install_trampolines(d):
    from ..isa import all_specs

    for s in all_specs(d):
        if s.hook is not None and not getattr(s.hook, "_amosim_wrapped", False):
            s.hook = _trampoline(s.hook)


# ---------------------------------------------------------------------------
# outcomes
# ---------------------------------------------------------------------------
def _render(v):
    try:
        if callable(v):
            return "fn:" + getattr(v, "__name__", "?")
        if isinstance(v, (list, tuple)):
            if len(v) > 64:
                return [_render(x) for x in v[:64]] + ["...%d" % len(v)]
            return [_render(x) for x in v]
        if isinstance(v, (bytes, bytearray)):
            return "b:" + bytes(v).hex()
        if isinstance(v, (int, bool, str, type(None))):
            return v
        sz = getattr(v, "size", None)
        return "%s/%s" % (str(v), sz)
    except Exception as e:  # rendering failures are part of the outcome
        return "ERR:" + type(e).__name__


SKIP_ATTR = ("bytes", "spec", "operands", "misc", "mnemonic", "type", "address")


def fingerprint(i):
    if i is None:
        return None
    attrs = {}
    for k in sorted(vars(i)):
        if k in SKIP_ATTR:
            continue
        attrs[k] = _render(vars(i)[k])
    return [
        bytes(i.bytes).hex(),
        i.mnemonic,
        i.type,
        [_render(o) for o in i.operands],
        sorted([str(k), _render(v)] for k, v in i.misc.items() if v is not None),
        attrs,
        getattr(i.spec, "format", None),
        _render(i.address),
    ]


def _kargs(op, isa_name):
    k = {}
    b = bytes.fromhex(op["bytes"])
    if op.get("address") is not None:
        k["address"] = op["address"]
    if isa_name.endswith("wasm.cpu"):
        code = bytes.fromhex(op["code"]) if op.get("code") is not None else b
        k["address"] = op.get("address") or 0
        k["code"] = bytes(k["address"]) + code
    return b, k


def do_call(d, op, isa_name, setmode):
    """one top-level decode call with its fault decision -> outcome (JSON-able)"""
    b, k = _kargs(op, isa_name)
    setmode(op.get("mode"))
    f = op.get("fault")
    before = Arm.fired
    if f and f.get("kind") == "setup-raises":
        Arm.count = f["nth"]
        Arm.exc = f.get("exc", "SimFault")
    else:
        Arm.count = None
    try:
        i = d(b, **k)
        out = ["ok", fingerprint(i)]
    except SimFault:
        out = ["exc", "SimFault", "injected"]
    except MemoryError as e:
        out = ["exc", "MemoryError", "injected" if "injected" in str(e) else "natural"]
    except RecursionError:
        out = ["exc", "RecursionError", ""]
    except Exception as e:
        # innermost frame that is amoco's own (the fault trampoline's frame is ours)
        tb = [fr for fr in traceback.extract_tb(e.__traceback__) if "amosim" not in fr.filename]
        out = ["exc", type(e).__name__, tb[-1].name if tb else ""]
    finally:
        Arm.count = None
    fired = Arm.fired - before
    return out, fired, b


# ---------------------------------------------------------------------------
# generation
# ---------------------------------------------------------------------------
class Gen(object):
    def __init__(self, cpu, isa_name, rng, faults):
        from .. import isa as I

        self.I = I
        self.cpu = cpu
        self.name = isa_name
        self.d = cpu.disassemble
        self.sets = [I.specs_of_set(self.d, k) for k in range(len(self.d.specs))]
        self.modes = [m for m, _ in I.modes_of(isa_name, cpu)]
        self.mode_sets = [I.mode_set(isa_name, m) for m in self.modes]
        self.endian = I.insn_endian(cpu)
        self.faults = faults
        self.is_x86 = isa_name.endswith(("cpu_x86", "cpu_x64"))
        self.is_x64 = isa_name.endswith("cpu_x64")
        self.pfx_specs = [[s for s in S if s.pfx is True] for S in self.sets]
        self.recent = []
        self.archive = []  # long-term sample of earlier inputs (re-issued much later)
        self.seen = 0
        self._overlaps = {}

    def overlaps(self, mode_idx):
        """(word, mask, nbits) for every pair of specs of one leaf of the decoder
        tree that accept a common word: the inputs for which the *order* of the
        linear search inside a leaf (or any memo of its result) decides the outcome"""
        k = self.mode_sets[mode_idx]
        if k in self._overlaps:
            return self._overlaps[k]
        out = []
        maxsize = self.d.maxlen * 8
        be = self.endian == -1

        def adj(x):
            return x.ival << (maxsize - x.size) if be else x.ival

        def walk(fl):
            f, l = fl
            if f == 0:
                L = list(l)[:40]
                for i in range(len(L)):
                    for j in range(i + 1, len(L)):
                        a, b = L[i], L[j]
                        if a.fix.size == 0 or b.fix.size == 0:
                            continue
                        ma, mb = adj(a.mask), adj(b.mask)
                        fa, fb = adj(a.fix), adj(b.fix)
                        if (fa ^ fb) & ma & mb:
                            continue
                        out.append((fa | fb, ma | mb, max(a.fix.size, b.fix.size)))
            else:
                for kk in sorted(l.keys()):
                    walk(l[kk])

        walk(self.d.specs[k])
        self._overlaps[k] = out
        return out

    def overlap_word(self, rng, mode_idx):
        O = self.overlaps(mode_idx)
        if not O:
            return self.valid(rng, mode_idx)
        w, m, n = rng.choice(O)
        maxsize = self.d.maxlen * 8
        if self.endian == -1:
            t = rng.getrandbits(maxsize)
            W = w | (t & ~m & ((1 << maxsize) - 1))
            return W.to_bytes(maxsize // 8, "big")
        t = rng.getrandbits(n)
        W = w | (t & ~m & ((1 << n) - 1))
        return W.to_bytes(n // 8, "little") + bytes(rng.randrange(256) for _ in range(rng.choice([0, 0, 1, 4, self.d.maxlen])))

    def valid(self, rng, mode_idx):
        S = self.sets[self.mode_sets[mode_idx]]
        s = rng.choice(S)
        tail = rng.choice([0, 0, 1, 2, 4, 8, self.d.maxlen])
        b = self.I.encode(s, rng, endian=self.endian if s.size != 0 else 1, tail=tail)
        return b

    def prefixes(self, rng, mode_idx):
        out = b""
        if self.is_x86:
            n = rng.choice([0, 0, 1, 1, 2, 3, 4])
            for _ in range(n):
                out += bytes([rng.choice(self.I.X86_PREFIXES)])
            if self.is_x64 and rng.random() < 0.4:
                out += bytes([rng.choice(self.I.REX)])
        else:
            P = self.pfx_specs[self.mode_sets[mode_idx]]
            if P and rng.random() < 0.5:
                for _ in range(rng.choice([1, 1, 2])):
                    out += self.I.encode(rng.choice(P), rng, endian=1)
        return out

    def op(self, rng):
        mi = rng.randrange(len(self.modes)) if rng.random() < 0.5 else 0
        mode = self.modes[mi]
        kind = weighted(
            rng,
            [("valid", 4), ("pvalid", 4), ("trunc", 3), ("pfxonly", 1.5), ("random", 1.5), ("repeat", 2), ("strip", 1.5), ("addpfx", 1.5), ("pfxrun", 0.8), ("empty", 0.2), ("overlap", 2.5), ("again", 2.5)],
        )
        note = None
        if kind == "valid":
            b = self.valid(rng, mi)
        elif kind == "pvalid":
            b = self.prefixes(rng, mi) + self.valid(rng, mi)
        elif kind == "trunc":
            full = self.prefixes(rng, mi) + self.valid(rng, mi)
            k = rng.randrange(0, max(1, len(full)))
            b = full[:k]
            note = {"kind": "truncate", "k": k, "of": full.hex()}
        elif kind == "pfxonly":
            b = self.prefixes(rng, mi) or (bytes([rng.choice(self.I.X86_PREFIXES)]) if self.is_x86 else b"")
        elif kind == "random":
            b = bytes(rng.randrange(256) for _ in range(rng.randint(1, self.d.maxlen + 2)))
        elif kind == "repeat" and self.recent:
            b = bytes.fromhex(rng.choice(self.recent))
        elif kind == "again" and self.archive:
            # an input of long ago, as it was (same bytes, mode, address, fault decision)
            op = dict(rng.choice(self.archive))
            return op
        elif kind == "overlap":
            b = self.overlap_word(rng, mi)
            if rng.random() < 0.6:
                b = self.prefixes(rng, mi) + b
        elif kind == "pfxrun":
            # a run of prefix bytes around the decoder's limits (longest instruction, fetch
            # window) and, rarely, around the interpreter's recursion limit
            one = None
            if self.is_x86:
                one = [bytes([c]) for c in self.I.X86_PREFIXES]
            else:
                P = self.pfx_specs[self.mode_sets[mi]]
                if P:
                    one = [self.I.encode(p, rng, endian=1) for p in P]
            if one:
                n = rng.choice([self.d.maxlen - 1, self.d.maxlen, self.d.maxlen + 1, 2 * self.d.maxlen, 40] + ([1200, 3500] if rng.random() < 0.15 else []))
                run = b"".join(rng.choice(one) if rng.random() < 0.5 else one[0] for _ in range(max(1, n)))
                b = run + (self.valid(rng, mi) if rng.random() < 0.8 else b"")
            else:
                b = self.valid(rng, mi)
        elif kind == "strip" and self.recent:
            # the tail of a recent input without its leading byte(s): what the decoder
            # saw after consuming a prefix
            b = bytes.fromhex(rng.choice(self.recent))
            b = b[rng.choice([1, 1, 2]) :]
        elif kind == "addpfx" and self.recent:
            b = (self.prefixes(rng, mi) or (bytes([rng.choice(self.I.X86_PREFIXES)]) if self.is_x86 else b"")) + bytes.fromhex(rng.choice(self.recent))
        else:
            b = b""
        if self.name.endswith("wasm.cpu") and len(b) > 1 and b[0] in (0x0E, 0x1C):
            # br_table / select loop over a LEB128 count taken from the input; an
            # unbounded count is a totality matter (C17), not a history effect
            b = b[:1] + bytes([b[1] & 0x1F]) + b[2:]
        op = {"op": "decode", "bytes": b.hex(), "mode": mode, "fault": note}
        if kind == "overlap":
            op["g"] = "overlap"
        if rng.random() < 0.2:
            op["address"] = rng.choice([0, 0x1000, 0x7FFFFFF0])
        if self.name.endswith("wasm.cpu"):
            op["address"] = 0
            if rng.random() < 0.25:
                op["code"] = b[: rng.randrange(0, len(b) + 1)].hex()
        if self.faults and rng.random() < 0.18:
            op["fault"] = {
                "kind": "setup-raises",
                "nth": rng.choice([0, 0, 1, 1, 2, 3]),
                "exc": rng.choice(["SimFault", "SimFault", "MemoryError"]),
            }
        if len(op["bytes"]) < 200:
            self.recent.append(op["bytes"])
        if len(self.recent) > 12:
            self.recent.pop(0)
        # reservoir sample of everything issued so far
        self.seen += 1
        if len(op["bytes"]) < 200:
            if len(self.archive) < 256:
                self.archive.append(op)
            elif rng.random() < 256.0 / self.seen:
                self.archive[rng.randrange(256)] = op
        return op


def shrink_op(op):
    out = []
    b = op.get("bytes", "")
    if op.get("fault") and op["fault"].get("kind") == "truncate":
        o = dict(op)
        o["fault"] = None
        out.append(o)
    if op.get("address") is not None and "code" not in op:
        o = dict(op)
        o.pop("address")
        out.append(o)
    if len(b) > 2:
        o = dict(op)
        o["bytes"] = b[:-2]
        out.append(o)
    return out


# ---------------------------------------------------------------------------
# the world
# ---------------------------------------------------------------------------
def _setmode_fn(isa_name, cpu):
    from .. import isa as I

    table = dict(I.modes_of(isa_name, cpu))

    def setmode(label):
        f = table.get(label)
        if f:
            f()

    return setmode


def _reference(req):
    """executed in a pristine reference world: one call, no history."""
    from .. import isa as I

    if "batch" in req:
        # many calls in one pristine process, in the order given (a different
        # order from the world's, ISAs mixed): decoding being memoryless, every
        # outcome must be the one the world saw
        for name in sorted(set(n for n, t, _ in req["batch"] if t)):
            install_trampolines(I.LOADED[name].disassemble)
        sm = {}
        outs = []
        for name, _, op in req["batch"]:
            cpu = I.LOADED[name]
            if name not in sm:
                sm[name] = _setmode_fn(name, cpu)
            outs.append(do_call(cpu.disassemble, op, name, sm[name])[0])
        return outs
    cpu = I.LOADED[req["isa"]]
    if req.get("tramp"):
        install_trampolines(cpu.disassemble)
    out, _, _ = do_call(cpu.disassemble, req["op"], req["isa"], _setmode_fn(req["isa"], cpu))
    return out


def pick_isa(rng):
    from .. import isa as I

    names = [n for n in I.CPU_MODULES if n in I.LOADED]
    return weighted(rng, [(n, ISA_WEIGHTS.get(n, 1)) for n in names])


def run(spec):
    from .. import isa as I

    if spec["kind"] == "pairs":
        return run_pairs(spec)
    rng = random.Random(spec.get("seed", 0))
    if spec["kind"] == "trace":
        config = spec["config"]
    else:
        config = {"calls": spec.get("calls", 20000)}
    refsrv = RefServer(_reference, close_fds=[WORLD_PIPE] if WORLD_PIPE is not None else [])
    try:
        return _history(spec, config, rng, refsrv)
    finally:
        refsrv.close()


def fresh_decoder(proto):
    """a decoder object in the state `proto` was in when it was captured (before
    its first call in this world): shallow copy sharing the spec tree, with its
    own copy of every other mutable container attribute (caches, pending state)"""
    d = copy.copy(proto)
    for k, v in list(vars(d).items()):
        if k == "specs":
            continue
        if isinstance(v, (set, dict, list, bytearray)):
            try:
                setattr(d, k, copy.deepcopy(v))
            except Exception:
                pass
    return d


class IsaState(object):
    def __init__(self, name, rng):
        from .. import isa as I

        self.name = name
        self.cpu = I.LOADED[name]
        self.shared = self.cpu.disassemble
        self.pristine = fresh_decoder(self.shared)  # never called; source of memoryless references
        self.sut = self.shared
        self.tramp = False
        self.setmode = _setmode_fn(name, self.cpu)
        self.gen = Gen(self.cpu, name, rng, False)

    def episode(self, ep):
        self.sut = fresh_decoder(self.pristine) if ep.get("fresh_copy") else self.shared
        if ep.get("faults") and not self.tramp:
            install_trampolines(self.shared)
            self.tramp = True
        self.gen.faults = bool(ep.get("faults"))


def _history(spec, config, rng, refsrv):
    from .. import isa as I

    states = {}

    def state_of(name):
        if name not in states:
            states[name] = IsaState(name, rng)
        return states[name]

    left = [config["calls"]]
    seg = {"isa": None, "left": 0}

    def g(r, _):
        if left[0] <= 0:
            return None
        if seg["left"] <= 0:
            seg["isa"] = pick_isa(r)
            seg["left"] = r.choice([2, 3, 5, 8, 12, 20, 40, 60])
            ep = {
                "op": "episode",
                "isa": seg["isa"],
                "faults": r.random() < 0.6,
                "fresh_copy": r.random() < 0.1,
            }
            state_of(seg["isa"]).episode(ep)
            return ep
        left[0] -= 1
        seg["left"] -= 1
        return state_of(seg["isa"]).gen.op(r)

    src = OpSource(spec, g)
    wlog = EventLog()
    st = Stats()
    viol = None
    step = -1
    prev_kind = None
    prev_mode = None
    digests = []
    sample = None
    # per-episode bookkeeping
    S = None
    ep = None
    elog = None
    e_calls = e_ok = e_fault = 0
    last = None  # (op, outcome, isa, tramp) of the latest call, for the pristine oracle
    to_check = []
    first = {}  # call key -> (outcome, step) of its first occurrence in this process
    latest = {}  # call key -> (op, outcome, isa, tramp, step) of its latest occurrence

    def close_episode():
        if ep is None:
            return
        st.hit("episodes")
        if e_calls >= 2 and e_ok >= 1 and (e_fault >= 1 or not ep.get("faults")):
            digests.append(elog.digest())
            st.hit("episodes-nontrivial")
        if last is not None and (len(to_check) < 10) and (st.c["episodes"] % 25 == 1):
            to_check.append(last)

    while viol is None:
        op = src.next()
        step += 1
        if op is None:
            break
        if op["op"] == "episode":
            close_episode()
            ep = op
            elog = EventLog()
            e_calls = e_ok = e_fault = 0
            if op["isa"] not in I.LOADED:
                st.hit("isa-not-importable")
                S = None
                continue
            if S is not None and S.name != op["isa"]:
                st.hit("probe:isa-switch")
            S = state_of(op["isa"])
            S.episode(op)
            st.hit("config:faults" if op.get("faults") else "config:fault-free")
            if op.get("fresh_copy"):
                st.hit("config:fresh-decoder-object")
            prev_mode = None
            continue
        if S is None:
            continue
        name = S.name
        if prev_kind:
            st.hit("probe:call-after-" + prev_kind)
        got, fired, b = do_call(S.sut, op, name, S.setmode)
        exp, fired2, _ = do_call(fresh_decoder(S.pristine), op, name, S.setmode)
        elog.event(name, op["bytes"], op.get("mode"), op.get("fault"), got)
        wlog.event(step, got)
        e_calls += 1
        last = (op, got, name, S.tramp, step)
        # classification of what happened in this call (fault kinds that FIRED)
        f = op.get("fault") or {}
        prev_kind = None
        if fired:
            st.hit("fault:setup-raises-injected:" + f.get("exc", "?"))
            prev_kind = "injected-fault"
            e_fault += 1
        elif got[0] == "exc":
            st.hit("fault:setup-raises-natural")
            prev_kind = "natural-raise"
            e_fault += 1
        elif got[1] is None:
            e_fault += 1
            if f.get("kind") == "truncate":
                st.hit("fault:truncate")
                prev_kind = "truncated-prefix" if _starts_with_prefix(S.gen, b) else None
            else:
                st.hit("fault:reject")
                prev_kind = "reject-with-prefix" if _starts_with_prefix(S.gen, b) else None
        else:
            e_ok += 1
            if got[1][4]:
                st.hit("probe:prefix-instruction-decoded")
            if got[1][5].get("xdata"):
                st.hit("probe:xdata-call")
        if prev_mode is not None and op.get("mode") != prev_mode:
            st.hit("probe:mode-switch")
        prev_mode = op.get("mode")
        st.hit("calls")
        st.hit("isa-calls:" + I_short(name))
        if op.get("g") == "overlap" and got[0] == "ok" and got[1] is not None:
            st.hit("probe:overlapping-specs-input")
        if getattr(S.sut, "_disassembler__i", None) is not None:
            st.hit("pending-state-left-after-call")
        # oracle 1b: the same call earlier in this process (whatever happened in between)
        ck = _callkey(name, op, bool(ep.get("fresh_copy")))
        if ck in first:
            st.hit("probe:recurring-call-compared")
            if first[ck][0] != got:
                viol = {
                    "class": "outcome-differs-from-first-occurrence",
                    "signature": "decsim:%s:recurrence:%s" % (I_short(name), _diffkind(got, first[ck][0], b)),
                    "detail": {"step": step, "first_step": first[ck][1], "op": op, "expected": first[ck][0], "observed": got},
                }
                break
        else:
            first[ck] = (got, step)
        if not ep.get("fresh_copy") and len(op["bytes"]) < 200:
            latest[ck] = (op, got, name, S.tramp, step)
        # oracle 1: memoryless reference
        if got != exp:
            viol = {
                "class": "outcome-differs-from-memoryless",
                "signature": "decsim:%s:%s" % (I_short(name), _diffkind(got, exp, b)),
                "detail": {"step": step, "op": op, "expected": exp, "observed": got},
            }
            break
        # oracle 3: bytes are a prefix of this call's input
        if got[0] == "ok" and got[1] is not None:
            ib = bytes.fromhex(got[1][0])
            if not _kargs(op, name)[0].startswith(ib) and not (name.endswith("wasm.cpu")):
                viol = {
                    "class": "bytes-not-prefix-of-input",
                    "signature": "decsim:%s:foreign-bytes" % I_short(name),
                    "detail": {"step": step, "op": op, "observed": got},
                }
                break
        if sample is None and e_calls == 6:
            sample = {"episode": ep, "calls": src.trace[-6:]}
    if viol is None:
        close_episode()
        if last is not None:
            to_check.append(last)
    # oracle 2: pristine reference worlds for sampled calls
    if viol is None:
        for (op, got, name, tramp, k) in to_check:
            pr = refsrv.query({"isa": name, "op": op, "tramp": bool(tramp)})
            st.hit("probe:pristine-compared")
            if pr != got:
                viol = {
                    "class": "outcome-differs-from-pristine-process",
                    "signature": "decsim:%s:pristine:%s" % (I_short(name), _diffkind(got, pr, b"")),
                    "detail": {"step": k, "op": op, "expected": pr, "observed": got},
                }
                src.trace = src.trace[: k + 1]
                break
    # oracle 2b: a pristine process decodes a sample of this world's distinct calls in
    # another order (sorted by a hash of the call); a mismatch is settled by asking a
    # pristine process for that one call alone
    if viol is None and latest and spec.get("kind") != "trace":
        items = sorted((hashlib.sha256(ck.encode()).hexdigest(), v) for ck, v in latest.items())
        items = [v for _, v in items[:BATCH_N]]
        outs = refsrv.query({"batch": [[v[2], bool(v[3]), v[0]] for v in items]})
        st.hit("probe:shuffled-batch-compared", len(items))
        for n_, (v, pr) in enumerate(zip(items, outs)):
            if pr == v[1]:
                continue
            name, tramp = v[2], bool(v[3])
            alone = refsrv.query({"isa": name, "op": v[0], "tramp": tramp})
            if alone != v[1]:
                viol = {
                    "class": "outcome-differs-from-pristine-process",
                    "signature": "decsim:%s:pristine:%s" % (I_short(name), _diffkind(v[1], alone, b"")),
                    "detail": {"step": v[4], "op": v[0], "expected": alone, "observed": v[1]},
                }
                src.trace = src.trace[: v[4] + 1]
            else:
                # the world agrees with the pristine process; the batch process (whose
                # history is the batch prefix) does not: that prefix is the failing history
                viol = {
                    "class": "outcome-differs-from-pristine-process",
                    "signature": "decsim:%s:pristine:%s" % (I_short(name), _diffkind(pr, alone, b"")),
                    "detail": {"op": v[0], "expected": alone, "observed": pr, "history": "shuffled batch prefix"},
                }
                tr = []
                cur = None
                for x in items[: n_ + 1]:
                    if (x[2], bool(x[3])) != cur:
                        cur = (x[2], bool(x[3]))
                        tr.append({"op": "episode", "isa": x[2], "faults": bool(x[3]), "fresh_copy": False})
                    tr.append(x[0])
                src.trace = tr
            break
    res = {
        "status": "violation" if viol else "ok",
        "digest": wlog.digest(),
        "steps": st.c["calls"],
        "nontrivial": len(digests) > 0,
        "case_digests": digests,
        "cases": st.c["episodes"],
        "stats": st.as_dict(),
        "seed": spec.get("seed"),
        "config": config,
    }
    if viol:
        res["violation"] = viol
        res["trace"] = src.trace
    elif sample is not None and spec.get("want_sample"):
        res["sample"] = sample
    return res


def I_short(name):
    return name.replace("amoco.arch.", "")


BATCH_N = 6000


def _callkey(name, op, fresh):
    f = op.get("fault") or {}
    fk = (f.get("nth"), f.get("exc")) if f.get("kind") == "setup-raises" else None
    return repr((name, op.get("bytes"), op.get("mode"), op.get("address"), op.get("code"), fk))


def _starts_with_prefix(gen, b):
    if not b:
        return False
    if gen.is_x86:
        return b[0] in gen.I.X86_PREFIXES or (gen.is_x64 and 0x40 <= b[0] < 0x50)
    for P in gen.pfx_specs:
        for s in P:
            n = s.fix.size // 8
            if len(b) >= n:
                w = int.from_bytes(b[:n], "little")
                if w & s.mask.ival == s.fix.ival:
                    return True
    return False


def _diffkind(got, exp, b):
    if got[0] != exp[0]:
        return "kind-%s-vs-%s" % (got[0], exp[0])
    if got[0] == "exc":
        return "exception-differs"
    if got[1] is None or exp[1] is None:
        return "none-vs-instruction"
    if got[1][0] != exp[1][0]:
        return "bytes-differ"
    if got[1][1] != exp[1][1]:
        return "mnemonic-differs"
    if got[1][4] != exp[1][4]:
        return "misc-differs"
    if got[1][3] != exp[1][3]:
        return "operands-differ"
    return "attributes-differ"


# ---------------------------------------------------------------------------
# pair layer: every ordered pair (a, b) of a per-ISA pool as a 2-call history
# ---------------------------------------------------------------------------
def build_pool(cpu, name, pool_seed, pool_n):
    rng = random.Random(pool_seed ^ hash_name(name))
    gen = Gen(cpu, name, rng, True)
    pool = []
    while len(pool) < pool_n:
        pool.append(gen.op(rng))
    return pool


def hash_name(name):
    import hashlib

    return int.from_bytes(hashlib.sha256(name.encode()).digest()[:6], "big")


def run_pairs(spec):
    from .. import isa as I

    name = spec["isa"]
    st = Stats()
    log = EventLog()
    if name not in I.LOADED:
        return {"status": "ok", "digest": "", "nontrivial": False, "stats": {"isa-not-importable": 1}, "steps": 0}
    cpu = I.LOADED[name]
    pristine = fresh_decoder(cpu.disassemble)
    install_trampolines(cpu.disassemble)
    setmode = _setmode_fn(name, cpu)
    pool = build_pool(cpu, name, spec["pool_seed"], spec["pool_n"])
    n = spec["pool_n"]
    viol = None
    pairs = 0
    for k in range(spec["start"], min(spec["start"] + spec["count"], n * n)):
        a, b = pool[k // n], pool[k % n]
        sut = fresh_decoder(pristine)
        do_call(sut, a, name, setmode)
        got, fired, raw = do_call(sut, b, name, setmode)
        exp, _, _ = do_call(fresh_decoder(pristine), b, name, setmode)
        pairs += 1
        log.event(k, got)
        if got != exp:
            viol = {
                "class": "outcome-differs-from-memoryless",
                "signature": "decsim:%s:%s" % (I_short(name), _diffkind(got, exp, raw)),
                "detail": {"pair": [a, b], "expected": exp, "observed": got},
            }
            trace = [{"op": "episode", "isa": name, "faults": True, "fresh_copy": True}, a, b]
            break
    st.hit("pair-histories", pairs)
    st.hit("isa-pairs:" + I_short(name), pairs)
    res = {
        "status": "violation" if viol else "ok",
        "digest": log.digest(),
        "steps": 2 * pairs,
        "nontrivial": pairs > 0,
        "stats": st.as_dict(),
        "seed": spec.get("seed"),
        "config": {"calls": 2},
    }
    if viol:
        res["violation"] = viol
        res["trace"] = trace
    return res


def finalize_coverage(prop, tier, cov, specs, results):
    pairs = cov["counters"].get("pair-histories", 0)
    cov["pair_layer"] = {
        "two_call_histories": pairs,
        "pool_per_isa": next((s["pool_n"] for s in specs if s.get("kind") == "pairs"), 0),
        "exhaustive_over_pool": not cov["partial"],
    }
    cov["distinct_states"] = {
        "measure": "distinct (previous call's outcome class -> this call) transitions are not tracked; distinct event-log digests are reported as distinct_nontrivial",
    }
    cov["isas_not_importable"] = cov["counters"].get("isa-not-importable", 0)
