"""cfgsim -- C18: sweeps, blocks and control-flow graphs partition the code.

One world runs many independent cases.  A case = one code region of one ISA,
loaded as RawExec(shellcode(DataIO(bytes)), cpu):

 stage 1 (stream invariants, they also define the reference): linear sweep
   yields consecutive instructions; iterblocks/getblock blocks are the maximal
   runs ending at a control-flow instruction (+ delay slot); support/raw are
   the concatenation of the instructions, also after slicing / cutting at an
   instruction boundary.
 stage 2 (the history): a seeded subset of instruction-boundary addresses, the
   block getblock(a) for each, inserted into one cfg.graph in a seeded arrival
   order, interleaved with edges and re-insertions (node looked up by name
   first, exactly as amoco's own analyses do).  After every insertion: support
   nodes are non-empty and pairwise disjoint, sit at their own address, hold
   every inserted instruction exactly once, and a split of a node that was in
   the support left a fall-through edge old -> new with the old successors
   re-hung on the new node.
"""
import random
import struct
import traceback

from ..world import EventLog, Stats, OpSource, weighted
from ..supervisor import run_seed

PROPERTY_IDS = ["C18"]
LEVEL = "exploration"
WORLD_TIMEOUT = 300
WORLD_PIPE = None
CONTEXT_OPS = ("case",)

RULE = (
    "one case = one code region (spec-driven instruction stream, slice of a tests/samples file around its entry point, "
    "or random bytes; 12..220 bytes) of one ISA, swept once (stage 1 invariants) and then a seeded subset (<= 12) of its "
    "instruction-boundary addresses inserted as getblock() nodes into a cfg.graph in a seeded arrival order, with edges "
    "and re-insertions interleaved; invariants checked after every insertion. Each region is used twice with different "
    "arrival orders. Non-trivial: >= 3 swept instructions, >= 2 insertions and >= 1 insertion that met an existing node "
    "(split, swallow, adjacent or exact); distinct = distinct event-log digests."
)
ASSUMPTIONS = [
    "nodes are looked up with graph.get_by_name(block.name) before insertion, as amoco.sa.forward does; a second node object for an address already present is never inserted",
    "the reference block boundaries use instruction.type == type_control_flow and misc['delayed'] as the ISA's own markers",
    "not demanded (DESIGN 3.6): equality of the supports reached by different arrival orders; a fall-through edge after a swallow",
    "no I/O or failure seam besides the short fetch window at the end of the region; the adversary is arrival order",
    "sampling, not proof",
]
REAL_VS_STUB = {
    "real": ["amoco.sa.lsweep.lsweep.sequence/iterblocks/getblock", "amoco.code.block", "amoco.cfg.node/link/graph", "amoco.system.memory.MemoryZone (support)", "amoco.system.core.CoreExec.read_instruction", "amoco.system.raw.RawExec", "cpu decoders"],
    "stub": ["none"],
    "absent": ["network", "clock", "threads", "disk I/O"],
}
PROBES = {
    "C18": [
        "insert:exact-reinsertion",
        "insert:split-existing-node",
        "insert:swallow-next-node",
        "insert:adjacent-before-existing",
        "insert:before-first",
        "insert:after-last",
        "insert:three-way-split",
        "edge:added",
        "sweep:stopped-at-short-window",
        "block:delay-slot",
        "slice:checked",
        "cut:checked",
        "insert:block-starting-in-delay-slot",
        "graph:sweep-object's-own",
        "resweep-after-insertions",
        "client-cut-of-a-mapped-node",
        "block-inserted-where-the-client-cut",
    ]
}

ISAS = [
    "amoco.arch.x86.cpu_x86",
    "amoco.arch.x64.cpu_x64",
    "amoco.arch.arm.cpu_armv7",
    "amoco.arch.arm.cpu_armv8",
    "amoco.arch.eBPF.cpu",
    "amoco.arch.mips.cpu_r3000",
    "amoco.arch.mips.cpu_r3000LE",
    "amoco.arch.msp430.cpu",
    "amoco.arch.pic.cpu_pic18f46k22",
    "amoco.arch.ppc32.cpu",
    "amoco.arch.riscv.cpu_rv32i",
    "amoco.arch.riscv.cpu_rv64i",
    "amoco.arch.sparc.cpu_v8",
    "amoco.arch.superh.cpu_sh2",
    "amoco.arch.tricore.cpu",
    "amoco.arch.v850.cpu_v850e2s",
    "amoco.arch.w65c02.cpu",
    "amoco.arch.z80.cpu_gb",
    "amoco.arch.z80.cpu_z80",
]
ISA_W = {"amoco.arch.x86.cpu_x86": 4, "amoco.arch.x64.cpu_x64": 4, "amoco.arch.sparc.cpu_v8": 3, "amoco.arch.mips.cpu_r3000": 2, "amoco.arch.superh.cpu_sh2": 2, "amoco.arch.arm.cpu_armv7": 2}

SAMPLE_FILES = {
    "amoco.arch.x86.cpu_x86": ["x86/blocks.raw", "x86/flow.elf", "x86/loop_simple.elf", "x86/test_full.elf", "x86/test_pie.elf"],
    "amoco.arch.x64.cpu_x64": ["x64/flow.elf64", "x64/loop_simple.elf64", "x64/cxx.elf64", "x64/merge.elf64", "x64/test_full.elf64"],
    "amoco.arch.arm.cpu_armv7": ["arm/sc.bin", "arm/sc_ascii.bin", "arm/hw"],
    "amoco.arch.sparc.cpu_v8": ["sparc/saverestore", "sparc/solaris-sed.elf"],
    "amoco.arch.riscv.cpu_rv32i": ["riscv/TA.elf.signed"],
    "amoco.arch.eBPF.cpu": ["ebpf/bpf_patched_prog"],
}
SAMPLES = {}


def plan(prop, tier, seed):
    n, cases = (32, 260) if tier == "quick" else (320, 1200)
    return [
        {"kind": "random", "seed": run_seed(seed, prop, tier, i), "cases": cases, "want_sample": i < 2}
        for i in range(n)
    ]


def _elf_entry_offset(d):
    """tiny independent ELF reader: file offset of the entry point, or None"""
    try:
        if d[:4] != b"\x7fELF":
            return None
        is64 = d[4] == 2
        e = "<" if d[5] == 1 else ">"
        if is64:
            entry, phoff = struct.unpack(e + "QQ", d[24:40])
            phentsize, phnum = struct.unpack(e + "HH", d[54:58])
        else:
            entry, phoff = struct.unpack(e + "II", d[24:32])
            phentsize, phnum = struct.unpack(e + "HH", d[42:46])
        for k in range(phnum):
            ph = d[phoff + k * phentsize : phoff + (k + 1) * phentsize]
            if is64:
                p_type, p_flags, p_offset, p_vaddr, _, p_filesz = struct.unpack(e + "IIQQQQ", ph[:40])
            else:
                p_type, p_offset, p_vaddr, _, p_filesz = struct.unpack(e + "IIIII", ph[:20])
            if p_type == 1 and p_vaddr <= entry < p_vaddr + p_filesz:
                return p_offset + (entry - p_vaddr)
    except Exception:
        return None
    return None


def zygote_init():
    import os

    from .. import isa

    isa.load_all(ISAS)
    import amoco.sa.lsweep  # noqa
    import amoco.cfg  # noqa
    import amoco.code  # noqa
    import amoco.system.raw  # noqa

    repo = os.path.realpath(os.environ.get("AMOSIM_REPO", "/repo"))
    for name, files in SAMPLE_FILES.items():
        out = []
        for f in files:
            try:
                d = open(os.path.join(repo, "tests", "samples", f), "rb").read()
            except OSError:
                continue
            out.append((f, d, _elf_entry_offset(d)))
        SAMPLES[name] = out


# ---------------------------------------------------------------------------
# generation
# ---------------------------------------------------------------------------
class CaseGen(object):
    def __init__(self, rng):
        from .. import isa as I

        self.I = I
        self.names = [n for n in ISAS if n in I.LOADED]
        self.pending = []
        self.specs = {}

    def region(self, r, name):
        I = self.I
        cpu = I.LOADED[name]
        d = cpu.disassemble
        k = r.random()
        if k < 0.3 and SAMPLES.get(name):
            f, data, ent = r.choice(SAMPLES[name])
            if ent is not None and r.random() < 0.7:
                off = ent + r.choice([0, 0, 4, 16, 64, 200]) * r.choice([0, 1, 1, 3])
            else:
                off = r.randrange(0, max(1, len(data) - 32))
            return data[off : off + r.choice([16, 40, 80, 150, 220])], "sample:" + f
        if k < 0.92:
            if name not in self.specs:
                self.specs[name] = [[s for s in I.specs_of_set(d, 0) if s.pfx is not True]]
            S = self.specs[name][0]
            cf = getattr(self, "_cf_" + name, None)
            out = b""
            target = r.choice([12, 30, 60, 100, 160])
            en = I.insn_endian(cpu)
            while len(out) < target:
                s = r.choice(S)
                out += I.encode(s, r, endian=en if s.size != 0 else 1, tail=r.choice([0, 0, 0, 1, 4]) if s.size == 0 else 0)
            return out[:230], "spec-stream"
        return bytes(r.randrange(256) for _ in range(r.choice([12, 40, 100]))), "random"

    def new_case(self, r):
        name = weighted(r, [(n, ISA_W.get(n, 1)) for n in self.names])
        code, src = self.region(r, name)
        case = {"op": "case", "isa": name, "code": code.hex(), "src": src}
        # the graph the blocks go into: the sweep object's own graph (what amoco's
        # analyses do) or a separate one
        case["own"] = r.random() < 0.5
        return case

    def history(self, r, bounds):
        """bounds: instruction-boundary addresses of the swept region"""
        if not bounds:
            return []
        k = r.randint(1, min(12, len(bounds)))
        S = r.sample(bounds, k)
        ops = []
        for a in S:
            ops.append({"op": "add", "a": a})
            x = r.random()
            if x < 0.12:
                ops.append({"op": "add", "a": r.choice(S)})  # re-insertion (possibly of a later one: order)
            elif x < 0.3 and len(ops) >= 2:
                ops.append({"op": "edge", "x": r.choice(S), "y": r.choice(S)})
            if r.random() < 0.15:
                ops.append({"op": "resweep", "a": r.choice(bounds)})
            if r.random() < 0.12:
                # the client shortens a mapped node itself (node.cut is public) and later
                # inserts the block that starts where it cut
                ops.append({"op": "cutnode", "a": r.choice(S), "k": r.randrange(1, 6), "readd": r.random() < 0.8})
        ops.append({"op": "resweep", "a": r.choice(bounds)})
        return ops


def shrink_op(op):
    out = []
    if op.get("op") == "case" and len(op["code"]) > 8:
        o = dict(op)
        o["code"] = op["code"][:-2]
        out.append(o)
    return out


# ---------------------------------------------------------------------------
# execution
# ---------------------------------------------------------------------------
class Failure(Exception):
    def __init__(self, vclass, sig, detail):
        Exception.__init__(self, vclass)
        self.vclass = vclass
        self.sig = sig
        self.detail = detail


class Skip(Exception):
    pass


def _v(a):
    return a.v if hasattr(a, "v") else int(a)


class Case(object):
    def __init__(self, op, st):
        from amoco.sa.lsweep import lsweep
        from amoco import cfg
        from amoco.system.core import shellcode, DataIO
        from amoco.system.raw import RawExec
        from .. import isa as I

        self.st = st
        self.cfg = cfg
        self.name = op["isa"]
        self.cpu = I.LOADED[self.name]
        self.code = bytes.fromhex(op["code"])
        self.log = EventLog()
        self.log.event(op["isa"], op["code"])
        self.prog = RawExec(shellcode(DataIO(self.code)), self.cpu)
        self.z = lsweep(self.prog)
        self.G = self.z.G if op.get("own") else cfg.graph()
        if op.get("own"):
            st.hit("probe:graph:sweep-object's-own")
        self.inserted = {}  # address -> length of every inserted instruction
        self.n_insert = 0
        self.n_met = 0
        self.stage1()

    # -- stage 1 ---------------------------------------------------------------
    def sweep(self, a=0):
        from amoco.cas.expressions import cst

        return list(self.z.sequence(cst(a, self.cpu.PC().size)))

    def stage1(self):
        st = self.st
        try:
            instrs = self.sweep(0)
        except Exception as e:
            # natural decode/semantic failures are C17's subject, not C18's
            st.hit("case-skipped:sweep-raised:" + type(e).__name__)
            raise Skip()
        self.instrs = instrs
        pos = 0
        for i in instrs:
            a = _v(i.address)
            if a != pos:
                raise Failure("sweep-not-consecutive", "cfgsim:sweep:gap", {"at": a, "expected": pos})
            if i.length < 1:
                raise Failure("sweep-zero-length", "cfgsim:sweep:zero-length", {"at": a})
            if bytes(i.bytes) != self.code[pos : pos + i.length] and not self.name.endswith("wasm.cpu"):
                raise Failure("sweep-foreign-bytes", "cfgsim:sweep:bytes", {"at": a, "bytes": bytes(i.bytes).hex(), "code": self.code[pos : pos + i.length].hex()})
            pos += i.length
        if pos < len(self.code):
            st.hit("probe:sweep:stopped-at-short-window" if len(self.code) - pos < self.cpu.disassemble.maxlen else "sweep:stopped-undecodable")
        self.bounds = [_v(i.address) for i in instrs]
        # reference blocks (independent 15 lines)
        ref = []
        cur = []
        delay = False
        for i in instrs:
            cur.append(i)
            if i.misc.get("delayed", False):
                delay = True
            elif i.type == 2 or delay:
                if delay:
                    st.hit("probe:block:delay-slot")
                ref.append(cur)
                cur = []
                delay = False
        if cur:
            ref.append(cur)
        self.refblocks = ref
        # block end for a sweep started at any instruction boundary (independent
        # scan with the same rule); starts inside a delay slot are excluded from
        # the insertion candidates: a block started there does not end at the
        # stream's next block end, so it is not "cut from one instruction stream"
        self.blockend = {}
        self.slots = set()
        for k, i in enumerate(instrs):
            if k > 0 and instrs[k - 1].misc.get("delayed", False):
                self.slots.add(_v(i.address))
        for k, i in enumerate(instrs):
            a = _v(i.address)
            if a in self.slots:
                continue
            delay = False
            end = None
            for j in instrs[k:]:
                if j.misc.get("delayed", False):
                    delay = True
                elif j.type == 2 or delay:
                    end = _v(j.address) + j.length
                    break
            if end is None:
                end = _v(instrs[-1].address) + instrs[-1].length
            self.blockend[a] = end
        # (blocks started at a delay-slot address are legitimate insertions too: they are
        # consecutive instructions of the same stream; their end comes from the scan above)
        for k, i in enumerate(instrs):
            a = _v(i.address)
            if a in self.slots:
                delay = False
                end = None
                for j in instrs[k:]:
                    if j.misc.get("delayed", False):
                        delay = True
                    elif j.type == 2 or delay:
                        end = _v(j.address) + j.length
                        break
                self.blockend[a] = end if end is not None else _v(instrs[-1].address) + instrs[-1].length
        got = list(self.z.iterblocks(0))
        if [[_v(i.address) for i in b.instr] for b in got] != [[_v(i.address) for i in b] for b in ref]:
            raise Failure(
                "blocks-not-maximal-runs",
                "cfgsim:iterblocks:boundaries",
                {"got": [[_v(i.address) for i in b.instr] for b in got], "ref": [[_v(i.address) for i in b] for b in ref]},
            )
        for b, rb in zip(got, ref):
            self.check_block(b, rb, "iterblocks")
        self.log.event("stage1", self.bounds, [len(b) for b in ref])

    def check_block(self, b, rb, tag):
        a = _v(rb[0].address)
        L = sum(i.length for i in rb)
        sup = b.support
        if (_v(sup[0]), _v(sup[1])) != (a, a + L) or b.length != L or len(b) != L:
            raise Failure("block-support", "cfgsim:block:support", {"tag": tag, "support": [str(sup[0]), str(sup[1])], "want": [a, a + L], "length": b.length})
        if b.raw() != b"".join(bytes(i.bytes) for i in rb):
            raise Failure("block-raw", "cfgsim:block:raw", {"tag": tag, "at": a})

    def resweep(self, a):
        """the sweep is a function of the code region: whatever has been inserted into
        any graph meanwhile, the instruction stream and the blocks are what they were"""
        instrs = self.sweep(0)
        if [(_v(i.address), i.length) for i in instrs] != [(_v(i.address), i.length) for i in self.instrs]:
            raise Failure("sweep-changed-after-insertions", "cfgsim:resweep:sequence", {"got": [_v(i.address) for i in instrs], "ref": self.bounds})
        got = list(self.z.iterblocks(0))
        if [[_v(i.address) for i in b.instr] for b in got] != [[_v(i.address) for i in b] for b in self.refblocks]:
            raise Failure(
                "blocks-not-maximal-runs",
                "cfgsim:resweep:boundaries",
                {"got": [[_v(i.address) for i in b.instr] for b in got], "ref": [[_v(i.address) for i in b] for b in self.refblocks]},
            )
        if a in self.blockend:
            b = self.z.getblock(a)
            if b is None or (_v(b.support[0]), _v(b.support[1])) != (a, self.blockend[a]):
                raise Failure("getblock-boundaries", "cfgsim:getblock:boundaries", {"at": a, "support": None if b is None else [str(b.support[0]), str(b.support[1])], "want": [a, self.blockend[a]]})
        self.st.hit("probe:resweep-after-insertions" if self.n_insert else "resweep-before-insertions")
        self.log.event("resweep", a)

    def slice_and_cut(self, r_choice):
        """b[i:j] and b.cut(addr) at instruction boundaries (seeded choice r_choice in [0,1))"""
        for rb in self.refblocks[:4]:
            if len(rb) < 2:
                continue
            a0 = _v(rb[0].address)
            b = self.z.getblock(a0)
            offs = [0]
            for i in rb:
                offs.append(offs[-1] + i.length)
            n = len(rb)
            i0 = int(r_choice * n) % n
            j0 = i0 + 1 + int(r_choice * 7) % (n - i0)
            s = b[offs[i0] : offs[j0]]
            if s is None:
                raise Failure("block-slice", "cfgsim:block:slice-none", {"at": a0, "slice": [offs[i0], offs[j0]]})
            self.check_block(s, rb[i0:j0], "slice")
            self.st.hit("probe:slice:checked")
            k = 1 + int(r_choice * 13) % (n - 1)
            removed = b.cut(rb[k].address)
            if removed != n - k:
                raise Failure("block-cut", "cfgsim:block:cut-count", {"at": a0, "cut": _v(rb[k].address), "removed": removed, "want": n - k})
            self.check_block(b, rb[:k], "cut")
            self.st.hit("probe:cut:checked")

    # -- stage 2 ---------------------------------------------------------------
    def support_nodes(self, G=None):
        G = G or self.G
        out = []
        for mo in G.support._map:
            out.append((_v(mo.vaddr), mo.data.val, mo))
        return out

    def add(self, a):
        st = self.st
        cfg = self.cfg
        if a not in self.blockend:
            return
        b = self.z.getblock(a)
        if b is None:
            raise Failure("getblock-none", "cfgsim:getblock:none", {"at": a})
        end = self.blockend[a]
        if (_v(b.support[0]), _v(b.support[1])) != (a, end):
            raise Failure("getblock-boundaries", "cfgsim:getblock:boundaries", {"at": a, "support": [str(b.support[0]), str(b.support[1])], "want": [a, end]})
        before = [(s, n, [_v(i.address) for i in n.data.instr], list(n.N(+1))) for (s, n, _) in self.support_nodes()]
        # classify what this insertion meets (from the pre-state)
        split_of = None
        exact = False
        kinds = []
        for (s, n, ia, succ) in before:
            e = s + len(n)
            if s == a:
                exact = True
                kinds.append("exact-reinsertion")
            elif s < a < e:
                split_of = (s, n, ia, succ)
                kinds.append("split-existing-node")
            elif a < s < end:
                kinds.append("swallow-next-node")
            elif end == s:
                kinds.append("adjacent-before-existing")
        if before:
            if end <= before[0][0]:
                kinds.append("before-first")
            if a >= before[-1][0] + len(before[-1][1]):
                kinds.append("after-last")
        if a in self.slots:
            st.hit("probe:insert:block-starting-in-delay-slot")
        vtx = self.G.get_by_name("blck_%s" % str(b.address)) or cfg.node(b)
        self.G.add_vertex(vtx)
        # (what is inserted is the vertex: a node found by name may have been cut by the client)
        for i in (vtx.data.instr if vtx.data._is_block else b.instr):
            self.inserted[_v(i.address)] = i.length
        self.n_insert += 1
        if kinds and set(kinds) - {"before-first", "after-last"}:
            self.n_met += 1
        for k in set(kinds):
            st.hit("probe:insert:" + k)
        if split_of is not None and split_of[1].misc["cut"] and kinds.count("split-existing-node"):
            pass
        self.log.event("add", a, sorted(set(kinds)))
        self.check_graph("add@%d" % a)
        # (4) split edge
        if split_of is not None and not exact:
            s, old, ia, succ = split_of
            now = {x: n for (x, n, _) in self.support_nodes()}
            new = now.get(a)
            if new is None or now.get(s) is not old:
                raise Failure("split-lost-node", "cfgsim:split:nodes", {"old": s, "new": a})
            if old.e_to(new) is None:
                raise Failure("split-without-fallthrough-edge", "cfgsim:split:no-edge", {"old": s, "new": a})
            for n2 in succ:
                if n2 is new:
                    continue
                if new.e_to(n2) is None or old.e_to(n2) is not None:
                    raise Failure("split-successors-not-rehung", "cfgsim:split:successors", {"old": s, "new": a, "succ": _v(n2.data.address)})
            if old.misc.get("split-count-amosim"):
                st.hit("probe:insert:three-way-split")
            old.misc["split-count-amosim"] = 1
            new.misc["split-count-amosim"] = 1

    def cutnode(self, a, k, readd):
        """node.cut(addr) by the client on a node of the support, at an instruction boundary;
        the cut-away instructions are no longer in the graph until they are inserted again"""
        nodes = {s: n for (s, n, _) in self.support_nodes()}
        n = nodes.get(a)
        if n is None or len(n.data.instr) < 2:
            return
        ins = n.data.instr
        kk = 1 + (k - 1) % (len(ins) - 1)
        addr = ins[kk].address
        gone = [(_v(i.address), i.length) for i in ins[kk:]]
        removed = n.cut(addr)
        if removed != len(gone):
            raise Failure("node-cut-count", "cfgsim:nodecut:count", {"at": a, "cut": _v(addr), "removed": removed, "want": len(gone)})
        for (x, _) in gone:
            self.inserted.pop(x, None)
        self.st.hit("probe:client-cut-of-a-mapped-node")
        self.log.event("cutnode", a, _v(addr))
        self.check_graph("cutnode@%d" % a)
        if readd and _v(addr) in self.blockend:
            self.add(_v(addr))
            self.st.hit("probe:block-inserted-where-the-client-cut")

    def edge(self, x, y):
        cfg = self.cfg
        nodes = {s: n for (s, n, _) in self.support_nodes()}
        nx = self.G.get_with_address(x)
        ny = self.G.get_with_address(y)
        if nx is None or ny is None:
            return
        self.G.add_edge(cfg.link(nx, ny))
        self.st.hit("probe:edge:added")
        self.log.event("edge", x, y)
        self.check_graph("edge")

    def check_graph(self, tag):
        G = self.G
        if G.overlay is not None:
            self.st.hit("overlay-created(must-stay-0-for-one-stream-workloads)")
        nodes = self.support_nodes()
        cov = {}
        prev_end = None
        vertices = set(id(x) for x in G.V())
        for (s, n, mo) in nodes:
            if id(n) not in vertices:
                raise Failure("support-node-not-in-graph", "cfgsim:support:foreign-node", {"tag": tag, "at": s, "node": str(getattr(n, "name", n))})
            ia = [(_v(i.address), i.length) for i in n.data.instr]
            if not ia:
                raise Failure("support-empty-node", "cfgsim:support:empty-node", {"tag": tag, "at": s})
            if _v(n.data.address) != s:
                raise Failure("support-address-mismatch", "cfgsim:support:address", {"tag": tag, "mo": s, "node": _v(n.data.address)})
            if len(mo.data) != n.data.length or len(n) != sum(l for _, l in ia):
                raise Failure("support-length-mismatch", "cfgsim:support:length", {"tag": tag, "at": s, "mo": len(mo.data), "node": n.data.length})
            if prev_end is not None and s < prev_end:
                raise Failure("support-overlap", "cfgsim:support:overlap", {"tag": tag, "at": s, "prev_end": prev_end})
            prev_end = s + len(n)
            for (a, l) in ia:
                cov[a] = cov.get(a, 0) + 1
        missing = sorted(set(self.inserted) - set(cov))
        extra = sorted(set(cov) - set(self.inserted))
        dup = sorted(a for a, c in cov.items() if c > 1)
        if missing or extra or dup:
            kind = "missing" if missing else ("duplicated" if dup else "foreign")
            raise Failure(
                "support-not-exactly-once",
                "cfgsim:support:%s" % kind,
                {"tag": tag, "missing": missing[:8], "foreign": extra[:8], "duplicated": dup[:8], "overlay": G.overlay is not None,
                 "support": [(s, s + len(n)) for (s, n, _) in nodes]},
            )


def run(spec):
    from .. import isa as I

    rng = random.Random(spec.get("seed", 0))
    gen = None
    budget = [spec.get("cases", 50)]
    state = {"case": None, "pending": [], "twin": None}

    def g(r, _):
        nonlocal gen
        if gen is None:
            gen = CaseGen(r)
        if state["pending"]:
            return state["pending"].pop(0)
        if budget[0] <= 0:
            return None
        budget[0] -= 1
        if state["twin"] is not None:
            c, bounds = state["twin"]
            state["twin"] = None
            state["pending"] = [{"op": "slicecut", "x": r.random()}] + gen.history(r, bounds)
            return dict(c)
        c = gen.new_case(r)
        state["fresh"] = c
        return c

    src = OpSource(spec, g)
    st = Stats()
    wlog = EventLog()
    digests = []
    case = None
    case_start = 0
    viol = None
    steps = 0
    sample = None

    def close(case):
        if case is None:
            return
        st.hit("cases")
        if len(case.instrs) >= 3 and case.n_insert >= 2 and case.n_met >= 1:
            digests.append(case.log.digest())
            st.hit("cases-nontrivial")
        wlog.event(case.log.digest())

    while viol is None:
        op = src.next()
        if op is None:
            break
        try:
            if op["op"] == "case":
                close(case)
                case = None
                case_start = len(src.trace) - 1
                if op["isa"] not in I.LOADED:
                    st.hit("isa-not-importable")
                    continue
                try:
                    case = Case(op, st)
                except Skip:
                    case = None
                    continue
                st.hit("isa:" + op["isa"].replace("amoco.arch.", ""))
                st.hit("region:" + op.get("src", "?").split(":")[0])
                # generation of the history needs the swept bounds (adaptive)
                if src.replay is None:
                    if state.get("fresh") is op:
                        state["twin"] = (op, case.bounds)
                        state["pending"] = [{"op": "slicecut", "x": src.rng.random()}] + gen.history(src.rng, case.bounds)
                continue
            if case is None:
                continue
            steps += 1
            if op["op"] == "add":
                case.add(op["a"])
            elif op["op"] == "edge":
                case.edge(op["x"], op["y"])
            elif op["op"] == "slicecut":
                case.slice_and_cut(op["x"])
            elif op["op"] == "resweep":
                case.resweep(op["a"])
            elif op["op"] == "cutnode":
                case.cutnode(op["a"], op["k"], op.get("readd", True))
        except Failure as f:
            viol = {"class": f.vclass, "signature": f.sig, "detail": dict(f.detail, op=op, isa=case.name if case else op.get("isa"))}
        except Exception as e:
            tb = traceback.extract_tb(e.__traceback__)
            fr = [t for t in tb if "/amoco/" in t.filename]
            if not fr:
                raise
            where = "%s:%s" % (fr[-1].filename.split("/amoco/")[-1], fr[-1].name)
            viol = {
                "class": "exception",
                "signature": "cfgsim:exception:%s@%s" % (type(e).__name__, where),
                "detail": {"op": op, "exception": "%s: %s" % (type(e).__name__, e), "tb": traceback.format_exc()[-1800:]},
            }
        if sample is None and spec.get("want_sample") and steps == 6:
            sample = src.trace[case_start:]
    if viol is None:
        close(case)
    res = {
        "status": "violation" if viol else "ok",
        "digest": wlog.digest(),
        "steps": steps,
        "nontrivial": len(digests) > 0,
        "case_digests": digests,
        "cases": st.c["cases"] + (1 if viol else 0),
        "stats": st.as_dict(),
        "seed": spec.get("seed"),
        "config": {},
    }
    if viol:
        res["violation"] = viol
        res["trace"] = src.trace[case_start:]
    elif sample is not None:
        res["sample"] = sample
    return res
