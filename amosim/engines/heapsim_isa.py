"""heapsim (ISA workload) -- C10: symbolic results do not depend on analysis history.

One world = one process image = one shared heap.  Logical analysis clients
(each bound to an ISA, owning blocks and maps) are interleaved by the seeded
scheduler: decode a block, build its map, evaluate it on a concrete state,
re-evaluate an old map, rebuild, compose, print, pickle, execute single
instructions on scratch maps, build a map that is aborted half-way.

Oracles (constants only; symbolic residues are incomparable):
 (1) temporal: every observation (ISA, block bytes, address, state) equals the
     first observation of the same key in this process -- whether it is made
     on an old map or on a map rebuilt after the intervening history;
 (2) isolation: sampled first observations equal the observation made by a
     pristine forked process that executes only decode -> map -> eval;
 (3) guided layer: for (polluter spec, victim spec) pairs sharing an operand
     template, victim observed / polluter decoded+executed / victim observed
     again (old map and rebuilt map); a divergence is confirmed by replaying
     the three-step history in a pristine fork before it is reported.
The write barrier and the global snapshot attribute a divergence to a write
site; listed (known) sites are undone at step end.
"""
import hashlib
import pickle
import random
import traceback

from ..world import EventLog, Stats, OpSource, SimFault, RefServer, weighted, progress
from ..supervisor import run_seed

PROPERTY_IDS = ["C10"]
LEVEL = "exploration"
WORLD_TIMEOUT = 900
WORLD_PIPE = None
CONTEXT_OPS = ()
SALTS = 4
DET_RUNS = 4
SCREEN_ATTEMPTS = 6
SWEEP_N = 110

RULE = (
    "one world = one process history of ~400..1500 scheduled client operations over 2-4 analysis clients (ISAs biased so that "
    "clients share an ISA or an env module): decode block (1-4 spec-driven instructions sharing a per-world operand template), "
    "build map, evaluate on 3 boundary-biased concrete states, re-evaluate old maps, rebuild, compose, str, pickle, single "
    "instruction execution on scratch maps, aborted map construction. A case = one observation key (ISA, block, state); it is "
    "checked against its first occurrence every time it recurs, and sampled first occurrences against a pristine forked process. "
    "The guided layer enumerates polluter x victim spec pairs. Non-trivial case: observed >= 2 times with >= 1 decided (constant) "
    "comparison and >= 1 other client's operation in between; distinct = distinct observation keys."
)
ASSUMPTIONS = [
    "comparison is on constants only: a history that changes a symbolic residue without changing any constant observation is not detected",
    "fork() gives the post-import state; the pristine oracle is sampled (fork cost), the temporal oracle covers every recurrence",
    "concrete states give every register appearing in the map a boundary-biased value; memory contents are not modelled (loads stay symbolic and incomparable)",
    "listed known write sites are undone at step end (carve-out, DESIGN 2.7); witnesses replay without undo",
    "interleaving granularity is the API call; threads are out of scope (no property promises thread safety)",
    "avr, ppc32.cpu_e200 and superh.cpu_sh4 do not import on the pinned tree and are excluded",
]
REAL_VS_STUB = {
    "real": ["every importable cpu module (decoder, spec hooks, i_* semantics)", "amoco.arch.core", "amoco.cas.expressions / mapper", "amoco.system.memory"],
    "stub": ["write barrier on exp.__setattr__, global-dict snapshots (attribution + undo of listed sites only)"],
    "absent": ["network", "clock", "threads", "disk I/O"],
}
PROBES = {
    "C10": [
        "write-to-module-level-node",
        "internals-entry-changed",
        "old-map-reevaluated>=5-steps-later",
        "rebuilt-after-history",
        "two-clients-same-env",
        "abort-mid-block",
        "pristine-compared",
        "compose-observed",
        "pickled-map-observed",
        "analysis-continued-on-derived-map",
        "map-through-cfg-node",
        "composed-with-conditioned-map",
        "executed-in-perturbed-context",
        "battery-sweep-after-history",
        "battery-entry-rebuilt-after-an-operation",
        "node-cut-map-recomputed",
    ]
}

ISAS = [
    "amoco.arch.x86.cpu_x86",
    "amoco.arch.x64.cpu_x64",
    "amoco.arch.arm.cpu_armv7",
    "amoco.arch.arm.cpu_armv8",
    "amoco.arch.eBPF.cpu",
    "amoco.arch.mips.cpu_r3000",
    "amoco.arch.mips.cpu_r3000LE",
    "amoco.arch.msp430.cpu",
    "amoco.arch.pic.cpu_pic18f46k22",
    "amoco.arch.ppc32.cpu",
    "amoco.arch.riscv.cpu_rv32i",
    "amoco.arch.riscv.cpu_rv64i",
    "amoco.arch.sparc.cpu_v8",
    "amoco.arch.superh.cpu_sh2",
    "amoco.arch.tricore.cpu",
    "amoco.arch.v850.cpu_v850e2s",
    "amoco.arch.w65c02.cpu",
    "amoco.arch.z80.cpu_gb",
    "amoco.arch.z80.cpu_z80",
]
# ISAs that share env objects / spec helpers are scheduled together
FAMILIES = [
    ["amoco.arch.x86.cpu_x86", "amoco.arch.x64.cpu_x64"],
    ["amoco.arch.mips.cpu_r3000", "amoco.arch.mips.cpu_r3000LE"],
    ["amoco.arch.riscv.cpu_rv32i", "amoco.arch.riscv.cpu_rv64i"],
    ["amoco.arch.z80.cpu_gb", "amoco.arch.z80.cpu_z80"],
    ["amoco.arch.arm.cpu_armv7"],
    ["amoco.arch.arm.cpu_armv8"],
    ["amoco.arch.sparc.cpu_v8"],
    ["amoco.arch.superh.cpu_sh2"],
    ["amoco.arch.msp430.cpu"],
    ["amoco.arch.ppc32.cpu"],
    ["amoco.arch.eBPF.cpu"],
    ["amoco.arch.tricore.cpu"],
    ["amoco.arch.v850.cpu_v850e2s"],
    ["amoco.arch.pic.cpu_pic18f46k22"],
    ["amoco.arch.w65c02.cpu"],
]


def plan(prop, tier, seed):
    specs = []
    n, steps = (16, 380) if tier == "quick" else (80, 900)
    for i in range(n):
        specs.append({"kind": "random", "seed": run_seed(seed, prop, tier, i), "steps": steps, "want_sample": i < 2, "family": (i + seed) % len(FAMILIES)})
    # guided layer: polluter x victim spec pairs per ISA; quick = a seeded slice
    k = 0
    for name in ISAS:
        parts = 1 if tier == "quick" else 2
        for p in range(parts):
            specs.append({"kind": "pairs", "isa": name, "part": p, "parts": parts, "budget": 450 if tier == "quick" else 3000, "seed": run_seed(seed, prop, tier + "-pairs", k)})
            k += 1
    return specs


SAMPLE_FILES = {
    "amoco.arch.x86.cpu_x86": ["x86/flow.elf", "x86/loop_simple.elf", "x86/test_full.elf", "x86/test_pie.elf"],
    "amoco.arch.x64.cpu_x64": ["x64/flow.elf64", "x64/loop_simple.elf64", "x64/cxx.elf64", "x64/merge.elf64", "x64/test_full.elf64"],
    "amoco.arch.arm.cpu_armv7": ["arm/hw"],
    "amoco.arch.sparc.cpu_v8": ["sparc/saverestore", "sparc/solaris-sed.elf"],
    "amoco.arch.riscv.cpu_rv32i": ["riscv/TA.elf.signed"],
}
SAMPLES = {}


def zygote_init():
    import os
    from .. import isa
    from .cfgsim import _elf_entry_offset

    isa.load_all(ISAS)
    import amoco.cas.mapper  # noqa
    import amoco.cfg  # noqa
    import amoco.code  # noqa

    repo = os.path.realpath(os.environ.get("AMOSIM_REPO", "/repo"))
    for name, files in SAMPLE_FILES.items():
        out = []
        for f in files:
            try:
                d = open(os.path.join(repo, "tests", "samples", f), "rb").read()
            except OSError:
                continue
            ent = _elf_entry_offset(d)
            if ent is not None:
                out.append(d[ent : ent + 1500])
        SAMPLES[name] = out


# ---------------------------------------------------------------------------
# observations
# ---------------------------------------------------------------------------
def state_for(m, salt):
    import amoco.cas.expressions as E
    from amoco.cas.mapper import mapper
    from amoco.cas.expressions import cst

    s = mapper()
    regs = {}
    for l, v in m:
        for r in E.symbols_of(l) + E.symbols_of(v):
            # values are given to whole registers only: an equivalent in-place re-shaping may
            # replace (bc-1)[0:8] by (c-1), and the state must not depend on which of the
            # two names the map mentions at the moment
            while r._is_slc and hasattr(r, "x") and r.x._is_reg:
                r = r.x
            regs[str(r)] = r
    for name, r in sorted(regs.items()):
        if r._is_ext or not r.size or not r._is_reg:
            continue
        # every fourth state gives all registers the same boundary choice (equal operands:
        # zero results, equal comparisons), the others choose per register
        h = int(hashlib.sha256(("%s|%s" % (name if salt % 4 != 3 else "*", salt)).encode()).hexdigest(), 16)
        sel = h % 6
        h >>= 8
        val = [0, 1, (1 << r.size) - 1, 1 << (r.size - 1), (1 << (r.size - 1)) - 1, h & ((1 << r.size) - 1)][sel]
        try:
            s[r] = cst(val, r.size)
        except Exception:
            pass
    return s


SHIFTS = ("<<", ">>", ".>>", ">>>", "<<<")


def giant_shift(e, state, depth=0):
    """does evaluating e under state shift by an enormous amount?  (cst.__lshift__
    materialises value << n before masking: n ~ 2**32 allocates half a gigabyte and
    stalls -- a C01 matter; such states are skipped, and counted)"""
    from ..heap import children

    if depth > 60:
        return False
    for c in children(e):
        if giant_shift(c, state, depth + 1):
            return True
    if e._is_eqn and getattr(e.op, "symbol", None) in SHIFTS and e.l is not None:
        try:
            rv = e.r.eval(state)
        except Exception:
            return False
        if rv._is_cst and rv.v > 8 * max(64, e.size):
            return True
    return False


HUGE = 4000


def map_size(m):
    from ..heap import tree_size

    try:
        return sum(tree_size(v) + (tree_size(l) if l._is_ptr else 0) for l, v in m)
    except Exception:
        return 0


def observe_map(m, salt, route=">>"):
    """-> ["ok", {loc: [size, v|None]}] or ["exc", type]"""
    try:
        if map_size(m) > HUGE:
            # amoco walks expressions as trees: a map whose values share sub-expressions many
            # times over takes minutes to evaluate or print (a C01/C17 matter, not a history effect)
            return ["skipped", "huge-map"]
        st0 = state_for(m, salt)
        for l, v in m:
            if giant_shift(v, st0) or (l._is_ptr and giant_shift(l, st0)):
                return ["skipped", "giant-shift-amount"]
        if route == "eval":
            r = m.eval(st0)
        elif route == "use":
            r = m.use(*[(l, v) for l, v in st0])
        else:
            r = st0 >> m
        out = {}
        for l, v in r:
            try:
                v = v.simplify()
            except Exception:
                pass
            out[str(l)] = [v.size, v.v if v._is_cst else None]
        return ["ok", out]
    except RecursionError:
        return ["exc", "RecursionError"]
    except Exception as e:
        return ["exc", type(e).__name__]


def decode_block(cpu, ins, addr):
    from amoco.cas.expressions import cst

    out = []
    psz = cpu.PC().size
    d = cpu.disassemble
    for h in ins:
        b = bytes.fromhex(h)
        i = d(b + b"\0" * 8)
        if i is None:
            return None
        i.address = cst(addr, psz)
        addr += i.length
        out.append(i)
    return out


def decode_fp(instrs):
    if instrs is None:
        return None
    out = []
    for i in instrs:
        try:
            ops = [str(o) for o in i.operands]
        except Exception as e:
            ops = ["ERR:" + type(e).__name__]
        out.append([bytes(i.bytes).hex(), i.mnemonic, ops])
    return out


def compare_obs(first, now):
    """-> (decided, difference or None)"""
    if first[0] == "skipped" or now[0] == "skipped":
        return 0, None  # not observed (guards of the harness): incomparable
    if first[0] != now[0]:
        return 1, {"kind": "outcome-kind", "first": first[0] if first[0] == "ok" else first, "now": now[0] if now[0] == "ok" else now}
    if first[0] != "ok":
        return 1, (None if first == now else {"kind": "exception-type", "first": first, "now": now})
    a, b = first[1], now[1]
    decided = 0
    for k in a:
        if k in b and a[k][1] is not None and b[k][1] is not None:
            decided += 1
            if a[k] != b[k]:
                return decided, {"kind": "value", "loc": k, "first": a[k], "now": b[k]}
    return decided, None


def _reference(req):
    """pristine world: only the dependency chain of one observation, executed
    with the same step discipline (listed sites undone at step end) as the
    interleaved world, so that the two differ by the history only"""
    if req.get("trace") is not None:
        return _run_trace_for_ref(req)
    W = World({"known_keys": req.get("known_keys", [])}, None, confirm=True)
    W.step({"op": "block", "id": "b", "isa": req["isa"], "ins": req["ins"], "addr": req["addr"], "client": 0})
    blk = W.blocks.get("b")
    res = {"decode": blk["fp"] if blk else None}
    W.step({"op": "map", "id": "m", "block": "b", "client": 0})
    W.step({"op": "eval", "map": "m", "salts": req["salts"], "client": 0})
    obs = {}
    for key, (o, stp, cl) in W.first.items():
        obs[str(key[-1])] = o
    res["obs"] = obs
    return res


def _run_trace_for_ref(req):
    """pristine confirmation of a short history (guided layer)"""
    W = World({"known_keys": req.get("known_keys", [])}, None, confirm=True)
    for op in req["trace"]:
        v = W.step(op)
        if v is not None:
            return {"violation": v["class"], "detail": v["detail"]}
    return {"violation": None}


# ---------------------------------------------------------------------------
# the world
# ---------------------------------------------------------------------------
class World(object):
    def __init__(self, spec, refsrv, confirm=False):
        from .. import isa as I
        from ..heap import Barrier

        self.I = I
        self.known = set(spec.get("known_keys") or [])
        self.refsrv = refsrv
        self.confirm = confirm
        self.st = Stats()
        self.blocks = {}  # id -> dict(isa, ins, addr, instrs)
        self.maps = {}  # id -> dict(key, m, born)
        self.first = {}  # obs key -> (obs, step, client)
        self.first_dec = {}
        self.seen_count = {}
        self.decided = {}
        self.between = {}
        self.step_no = 0
        self.B = Barrier()
        self.B.install()
        self.globals = {}
        self.ref_budget = 14
        self.refd = set()
        self.log = EventLog()
        self.tracked_isas = set()
        self.ctx_regs = {}
        self.write_hist = []
        self.last_writes = []
        self.survey = {}

    # -- global state seams -----------------------------------------------------
    def track_isa(self, name):
        if name in self.tracked_isas:
            return
        self.tracked_isas.add(name)
        import importlib
        from amoco.cas.expressions import exp

        import sys as _sys

        cpu = self.I.LOADED[name]
        mods = [cpu]
        # the algebra's own module-level nodes (bit0, bit1, ...) are shared by every ISA
        if "amoco.cas.expressions" in _sys.modules:
            mods.append(_sys.modules["amoco.cas.expressions"])
        # every module of the ISA's package (env, utils, asm, spec*): tables of shared
        # expression objects live there too (condition codes, addressing-form tables ...)
        pkg = name.rsplit(".", 1)[0] + "."
        for mn, mod in sorted(_sys.modules.items()):
            if mod is not None and mn.startswith(pkg) and mod is not cpu:
                mods.append(mod)
        # the env module(s) of the ISA: everything the cpu module re-exports
        seen_dicts = {}
        for mod in mods:
            for k, v in list(vars(mod).items()):
                if k.startswith("__"):
                    continue
                if isinstance(v, exp):
                    self.B.track(v, "global:%s" % k)
                elif isinstance(v, (list, tuple)):
                    for x in v:
                        if isinstance(x, exp):
                            self.B.track(x, "global:%s[]" % k)
                        elif isinstance(x, (list, tuple)):
                            for y in x:
                                if isinstance(y, exp):
                                    self.B.track(y, "global:%s[][]" % k)
                elif isinstance(v, dict) and k in ("internals",):
                    if not any(d is v for d in seen_dicts.values()):
                        key = "%s.%s" % (cpu.__name__, k)
                        if key in seen_dicts:  # another dict of the same name in a sibling module
                            key = "%s.%s" % (mod.__name__, k)
                        seen_dicts[key] = v
                elif isinstance(v, dict) and len(v) < 300:
                    for x in v.values():
                        if isinstance(x, exp):
                            self.B.track(x, "global:%s{}" % k)
                        elif isinstance(x, (list, tuple)):
                            for y in x:
                                if isinstance(y, exp):
                                    self.B.track(y, "global:%s{}[]" % k)
        for k, d in seen_dicts.items():
            self.globals[k] = (d, dict(d))
        # the architectural registers of this ISA (module-level reg objects of its package)
        regs = []
        seen = set()
        for mod in mods:
            if not mod.__name__.startswith(pkg) and mod is not cpu:
                continue
            for k, v in sorted(vars(mod).items()):
                if isinstance(v, exp) and v._is_reg and not v._is_ext and 0 < v.size <= 128 and id(v) not in seen:
                    seen.add(id(v))
                    regs.append((k, v))
        self.ctx_regs[name] = [v for _, v in sorted(regs, key=lambda x: x[0])]

    def globals_diff(self):
        out = []
        for k, (d, snap) in self.globals.items():
            for kk in set(d) | set(snap):
                if d.get(kk, "<unset>") != snap.get(kk, "<unset>"):
                    out.append((k, kk, snap.get(kk, "<unset>"), d.get(kk, "<unset>")))
        return out

    def globals_accept(self):
        for k, (d, snap) in list(self.globals.items()):
            self.globals[k] = (d, dict(d))

    def globals_undo(self, diffs):
        done = 0
        for (k, kk, old, new) in diffs:
            key = "%s[%s]" % (k, kk)
            if key in self.known:
                d = self.globals[k][0]
                if old == "<unset>":
                    d.pop(kk, None)
                else:
                    d[kk] = old
                done += 1
                self.st.hit("undone:" + key)
        return done

    # -- oracle ------------------------------------------------------------------
    def record(self, key, obs, what, client):
        """compare with the first observation of this key in this process"""
        f = self.first.get(key)
        self.seen_count[key] = self.seen_count.get(key, 0) + 1
        if f is None:
            self.first[key] = (obs, self.step_no, client)
            return None
        dec, diff = compare_obs(f[0], obs)
        self.decided[key] = self.decided.get(key, 0) + dec
        self.st.hit("decided-comparisons", dec)
        if self.step_no - f[1] >= 5:
            self.st.hit("probe:old-map-reevaluated>=5-steps-later" if what == "re-eval" else "probe:rebuilt-after-history")
        if diff is not None:
            return {
                "class": "observation-differs-from-first",
                "detail": {"what": what, "key": list(key)[:4], "first_at_step": f[1], "now_at_step": self.step_no, "diff": diff},
            }
        return None

    def pristine_check(self, blk, obs_by_salt, dec_fp):
        if self.refsrv is None or self.ref_budget <= 0:
            return None
        k = (blk["isa"], tuple(blk["ins"]), blk["addr"])
        if k in self.refd:
            return None
        self.refd.add(k)
        self.ref_budget -= 1
        ref = self.refsrv.query({"isa": blk["isa"], "ins": blk["ins"], "addr": blk["addr"], "salts": sorted(obs_by_salt), "known_keys": sorted(self.known)})
        self.st.hit("probe:pristine-compared")
        if ref.get("decode") != dec_fp:
            return {"class": "decode-differs-from-pristine-process", "detail": {"block": blk["ins"], "pristine": ref.get("decode"), "here": dec_fp}}
        for s, o in obs_by_salt.items():
            r = (ref.get("obs") or {}).get(str(s))
            if r is None:
                continue
            dec, diff = compare_obs(r, o)
            self.st.hit("decided-comparisons", dec)
            if diff is not None:
                return {"class": "observation-differs-from-pristine-process", "detail": {"block": blk["ins"], "salt": s, "diff": diff}}
        return None

    # -- operations ----------------------------------------------------------------
    def step(self, op):
        """-> violation dict or None"""
        from amoco.cas.mapper import mapper

        self.step_no += 1
        B = self.B
        B.begin_step()
        k = op["op"]
        st = self.st
        viol = None
        cl = op.get("client", 0)
        try:
            if k == "block":
                name = op["isa"]
                if name not in self.I.LOADED:
                    st.hit("isa-not-importable")
                    return None
                self.track_isa(name)
                cpu = self.I.LOADED[name]
                try:
                    instrs = decode_block(cpu, op["ins"], op["addr"])
                    fp = decode_fp(instrs)
                except Exception as e:
                    instrs, fp = None, ["exc", type(e).__name__]
                self.blocks[op["id"]] = {"isa": name, "ins": op["ins"], "addr": op["addr"], "instrs": instrs, "fp": fp}
                dk = ("dec", name, tuple(op["ins"]), op["addr"])
                f = self.first_dec.get(dk)
                if f is None:
                    self.first_dec[dk] = (fp, self.step_no)
                elif f[0] != fp:
                    viol = {"class": "decode-differs-from-first", "detail": {"block": op["ins"], "isa": name, "first": f[0], "now": fp, "first_at_step": f[1]}}
                st.hit("ops:block")
            elif k == "map":
                blk = self.blocks.get(op["block"])
                if blk is None or blk["instrs"] is None or not isinstance(blk["instrs"], list):
                    return None
                try:
                    if op.get("via") == "node":
                        # the route amoco's own analyses take: cfg.node(block).map (cached on the node)
                        from amoco import cfg as _cfg, code as _code

                        n = _cfg.node(_code.block(list(blk["instrs"])))
                        m = n.map
                        st.hit("probe:map-through-cfg-node")
                    else:
                        n = None
                        m = mapper(blk["instrs"])
                    self.maps[op["id"]] = {"key": (blk["isa"], tuple(blk["ins"]), blk["addr"]), "m": m, "born": self.step_no, "blk": blk, "fresh": True, "node": n}
                except Exception as e:
                    self.maps[op["id"]] = {"key": (blk["isa"], tuple(blk["ins"]), blk["addr"]), "m": None, "exc": type(e).__name__, "born": self.step_no, "blk": blk, "fresh": True}
                st.hit("ops:map")
            elif k == "eval":
                mp = self.maps.get(op["map"])
                if mp is None:
                    return None
                what = "re-eval" if not mp.get("fresh") else "eval"
                obs_all = {}
                for s in op["salts"]:
                    if mp["m"] is None:
                        obs = ["exc", "map:" + mp.get("exc", "?")]
                    else:
                        obs = observe_map(mp["m"], s, op.get("route", ">>"))
                    obs_all[s] = obs
                    viol = self.record(mp["key"] + ((s,) if op.get("route", ">>") == ">>" else (op["route"], s)), obs, what, cl)
                    if viol is not None:
                        break
                mp["fresh"] = False
                if viol is None and "blk" in mp and op.get("route", ">>") == ">>" and not op.get("nopristine"):
                    viol = self.pristine_check(mp["blk"], obs_all, mp["blk"]["fp"])
                st.hit("ops:eval")
            elif k == "compose":
                a, b = self.maps.get(op["m1"]), self.maps.get(op["m2"])
                if a is None or b is None or a["m"] is None or b["m"] is None:
                    return None
                if map_size(a["m"]) + map_size(b["m"]) > HUGE:
                    st.hit("compose-skipped:large-map")
                    return None
                try:
                    bm = b["m"]
                    ck = ()
                    if op.get("cond"):
                        # the later block is taken under a path condition (what a path explorer
                        # does with assume()): the earlier map must not inherit it
                        import amoco.cas.expressions as E

                        regs = {}
                        for l, v in a["m"]:
                            for r_ in E.symbols_of(v):
                                if r_._is_reg and r_.size >= 8:
                                    regs[str(r_)] = r_
                        if regs:
                            r_ = regs[sorted(regs)[op["cond"] % len(regs)]]
                            bm = bm.assume([r_ < E.cst(0x10, r_.size)])
                            ck = ("cond", str(r_))
                            st.hit("probe:composed-with-conditioned-map")
                    m = a["m"] >> bm
                    self.maps[op["id"]] = {"key": ("compose",) + ck + a["key"] + b["key"], "m": m, "born": self.step_no, "fresh": True}
                    st.hit("probe:compose-observed")
                except Exception as e:
                    self.maps[op["id"]] = {"key": ("compose",) + a["key"] + b["key"], "m": None, "exc": type(e).__name__, "born": self.step_no, "fresh": True}
            elif k == "sweep":
                viol = self.sweep(op)
            elif k == "probe":
                viol = self.sweep(op, only=op["k"])
            elif k == "nodecut":
                # a node is cut (what cfg.graph does when a later block splits it): the node's
                # map is recomputed for the shorter block; the map the client got from the
                # node before stays what it was
                mp = self.maps.get(op["map"])
                if mp is None or mp.get("node") is None or mp["m"] is None:
                    return None
                n = mp["node"]
                ins = n.data.instr
                if len(ins) < 2:
                    return None
                kk = 1 + op["k"] % (len(ins) - 1)
                blk = mp["blk"]
                try:
                    n.cut(ins[kk].address)
                    m2 = n.map
                    self.maps[op["id"]] = {"key": (blk["isa"], tuple(blk["ins"][:kk]), blk["addr"]), "m": m2, "born": self.step_no, "fresh": True, "node": None}
                    mp["node"] = None
                    st.hit("probe:node-cut-map-recomputed")
                except Exception as e:
                    self.maps[op["id"]] = {"key": (blk["isa"], tuple(blk["ins"][:kk]), blk["addr"]), "m": None, "exc": type(e).__name__, "born": self.step_no, "fresh": True}
            elif k == "extend":
                # the analysis goes on from a stored map: a working copy is derived from
                # it and further instructions are executed on the copy (what an emulator
                # or a path explorer does); the stored map must stay what it was
                mp = self.maps.get(op["map"])
                blk = self.blocks.get(op["block"])
                if mp is None or mp["m"] is None or blk is None or not isinstance(blk["instrs"], list):
                    return None
                how = op["how"]
                # going on from an already large map multiplies expression sizes at every
                # instruction (amoco's simplifier is exponential there: a C01/C17 matter)
                from ..heap import tree_size

                if map_size(mp["m"]) > 600 or len(blk["instrs"]) > 4:
                    st.hit("extend-skipped:large-map")
                    return None
                try:
                    if how == "use":
                        d = mp["m"].use()
                    elif how == "eval-empty":
                        d = mp["m"].eval(mapper())
                    elif how == "assume-empty":
                        d = mp["m"].assume([])
                    elif how == "rshift-empty":
                        d = mp["m"] >> mapper()
                    else:
                        d = mapper() >> mp["m"]
                    for i in blk["instrs"]:
                        i(d)
                    self.maps[op["id"]] = {"key": ("extend", how) + mp["key"] + (blk["isa"], tuple(blk["ins"]), blk["addr"]), "m": d, "born": self.step_no, "fresh": True}
                    st.hit("probe:analysis-continued-on-derived-map")
                except Exception as e:
                    self.maps[op["id"]] = {"key": ("extend", how) + mp["key"] + (blk["isa"], tuple(blk["ins"]), blk["addr"]), "m": None, "exc": type(e).__name__, "born": self.step_no, "fresh": True}
            elif k == "str":
                mp = self.maps.get(op["map"])
                if mp is not None and mp["m"] is not None and map_size(mp["m"]) <= HUGE:
                    try:
                        str(mp["m"])
                    except Exception:
                        pass
                blk = self.blocks.get(op.get("block"))
                if blk is not None and isinstance(blk["instrs"], list):
                    for i in blk["instrs"]:
                        try:
                            str(i)
                        except Exception:
                            pass
            elif k == "pickle":
                mp = self.maps.get(op["map"])
                if mp is not None and mp["m"] is not None:
                    try:
                        y = pickle.loads(pickle.dumps(mp["m"]))
                        self.maps[op["id"]] = dict(mp, m=y, born=self.step_no, fresh=False)
                        st.hit("probe:pickled-map-observed")
                    except Exception:
                        pass
            elif k == "exec1":
                blk = self.blocks.get(op["block"])
                if blk is not None and isinstance(blk["instrs"], list):
                    for i in blk["instrs"]:
                        try:
                            i(mapper())
                        except Exception:
                            pass
            elif k == "exec_ctx":
                # the block executed on a map in which every architectural register already has
                # a (perturbed) symbolic value: an analysis in the middle of a path, where
                # evaluating anything in the map never gives it back unchanged
                blk = self.blocks.get(op["block"])
                if blk is not None and isinstance(blk["instrs"], list):
                    m = mapper()
                    try:
                        for node in self.ctx_regs.get(blk["isa"], ()):
                            m[node] = ~node
                    except Exception:
                        pass
                    st.hit("probe:executed-in-perturbed-context")
                    for i in blk["instrs"]:
                        try:
                            i(m)
                        except Exception:
                            pass
            elif k == "abort":
                blk = self.blocks.get(op["block"])
                if blk is not None and isinstance(blk["instrs"], list):
                    m = mapper()
                    try:
                        for n, i in enumerate(blk["instrs"]):
                            if n >= op["after"]:
                                raise SimFault("analysis interrupted")
                            i(m)
                    except SimFault:
                        st.hit("probe:abort-mid-block")
                        st.hit("fault:aborted-map-construction")
                    except Exception:
                        pass
            elif k == "mode":
                name = op["isa"]
                if name in self.I.LOADED and hasattr(self.I.LOADED[name], "configure"):
                    try:
                        self.I.LOADED[name].configure(format=op["format"])
                    except Exception:
                        pass
            elif k == "reset":
                self.soft_reset()
            else:
                raise ValueError("unknown op %r" % (op,))
        finally:
            writes = B.writes()
            diffs = self.globals_diff()
        if writes:
            st.hit("probe:write-to-module-level-node", len(writes))
            for (obj, name, old, new, site) in writes:
                st.hit("site:%s:%s" % (site, name))
        for (gk, kk, old, new) in diffs:
            st.hit("probe:internals-entry-changed")
            st.hit("site:%s[%s]" % (gk, kk))
        undone = B.undo(self.known)
        for kx, n in undone.items():
            st.hit("undone:" + kx, n)
        self.globals_undo(diffs)
        self.globals_accept()
        self.last_writes = sorted(set("%s:%s" % (s, n) for (_, n, _, _, s) in writes)) + sorted(set("%s[%s]" % (g, kk) for (g, kk, _, _) in diffs))
        listed_only = [w for w in self.last_writes if w not in self.known]
        for w in listed_only:
            self.write_hist.append((self.step_no, w))
        if len(self.write_hist) > 4000:
            del self.write_hist[:2000]
        if viol is not None:
            viol["detail"]["op"] = {x: op[x] for x in op if x != "ins"}
            since = viol["detail"].get("first_at_step", 0)
            sites = sorted(set(w for (stp, w) in self.write_hist if stp > since))
            viol["detail"]["write_sites_since_first"] = sites[:12]
            viol["signature"] = "heapsim-isa:%s" % viol["class"]
        return viol

    def sweep(self, op, only=None):
        """rebuild and observe a fixed battery of single-instruction blocks of one ISA
        (only=k: just the k-th entry of the battery -- a probe placed right after an
        arbitrary operation of the history)"""
        from amoco.cas.mapper import mapper

        name = op["isa"]
        if name not in self.I.LOADED:
            return None
        self.track_isa(name)
        cpu = self.I.LOADED[name]
        en = self.I.insn_endian(cpu)
        S = [s for s in self.I.specs_of_set(cpu.disassemble, 0) if s.pfx is not True]
        rr = random.Random(op["seed"])
        idx = list(range(len(S))) if len(S) <= op["n"] else sorted(rr.sample(range(len(S)), op["n"]))
        # same battery, another order each time: what precedes an entry is part of the history
        random.Random(op.get("order", 0)).shuffle(idx)
        if only is not None:
            j = idx[(only // len(op["T"])) % len(idx)]
            ti = only % len(op["T"])
            sp = S[j]
            b = self.I.encode(sp, random.Random((op["seed"] << 12) ^ (j << 1) ^ ti), endian=en if sp.size != 0 else 1, tail=6 if sp.size == 0 else 0, template=op["T"][ti], flip=0.0).hex()
            cl = op.get("client", 0)
            self.st.hit("probe:battery-entry-rebuilt-after-an-operation")
            for sub in ({"op": "block", "id": "pr", "isa": name, "ins": [b], "addr": 0x1000, "client": cl}, {"op": "map", "id": "mpr", "block": "pr", "client": cl}, {"op": "eval", "map": "mpr", "salts": [0, 3], "client": cl, "nopristine": True}):
                v = self.step(sub)
                if v is not None:
                    v["detail"]["sweep_entry"] = [sp.format, b]
                    return v
            self.maps.pop("mpr", None)
            self.blocks.pop("pr", None)
            return None
        self.st.hit("probe:battery-sweep")
        first_time = ("sweep-done", name, op["seed"]) not in self.seen_count
        self.seen_count[("sweep-done", name, op["seed"])] = 1
        # phase 1: every entry is decoded and mapped (in whatever state the process is in now),
        # phase 2: every map is observed.  Each entry / observation is a step of its own: the
        # listed sites are undone at the end of each, as everywhere else
        cl = op.get("client", 0)
        built = []
        for j in idx:
            sp = S[j]
            for ti, T in enumerate(op["T"]):
                b = self.I.encode(sp, random.Random((op["seed"] << 12) ^ (j << 1) ^ ti), endian=en if sp.size != 0 else 1, tail=6 if sp.size == 0 else 0, template=T, flip=0.0).hex()
                bid = "sw%d.%d" % (j, ti)
                for sub in ({"op": "block", "id": bid, "isa": name, "ins": [b], "addr": 0x1000, "client": cl}, {"op": "map", "id": "m" + bid, "block": bid, "client": cl}):
                    v = self.step(sub)
                    if v is not None:
                        v["detail"]["sweep_entry"] = [sp.format, b]
                        return v
                built.append((bid, sp.format, b))
        for (bid, fmt, b) in built:
            v = self.step({"op": "eval", "map": "m" + bid, "salts": [0, 3], "client": cl, "nopristine": True})
            self.maps.pop("m" + bid, None)
            self.blocks.pop(bid, None)
            if v is not None:
                v["detail"]["sweep_entry"] = [fmt, b]
                return v
        if not first_time:
            self.st.hit("probe:battery-sweep-after-history")
        return None

    def soft_reset(self):
        """guided layer only: put tracked module-level nodes and dicts back to
        their import-time values (sensitivity aid, never an oracle)"""
        osa = object.__setattr__
        for (obj, name, val) in self.import_snapshot:
            osa(obj, name, val)
        for k, (d, snap) in self.globals.items():
            imp = self.import_globals.get(k)
            if imp is not None:
                d.clear()
                d.update(imp)
        self.globals_accept()

    def take_import_snapshot(self):
        from ..heap import slots_of
        from amoco.cas.expressions import exp

        snap = []
        for (node, owner) in self.B.tracked.values():
            for s in slots_of(type(node)):
                try:
                    v = object.__getattribute__(node, s)
                except AttributeError:
                    continue
                if isinstance(v, (int, bool, str, type(None))) or isinstance(v, exp):
                    snap.append((node, s, v))
        self.import_snapshot = snap
        self.import_globals = {k: dict(sn) for k, (d, sn) in self.globals.items()}


# ---------------------------------------------------------------------------
# generation
# ---------------------------------------------------------------------------
class Gen(object):
    def __init__(self, r, W, family=None):
        I = W.I
        self.I = I
        self.W = W
        fam = [f for f in FAMILIES if all(n in I.LOADED for n in f)]
        nclients = r.choice([2, 3, 3, 4])
        f0 = r.choice(fam)
        if family is not None and all(n in I.LOADED for n in FAMILIES[family % len(FAMILIES)]):
            f0 = FAMILIES[family % len(FAMILIES)]  # every family gets a world in every run
        isas = []
        for c in range(nclients):
            if c < 2 or r.random() < 0.5:
                isas.append(r.choice(f0))  # >= 2 clients share an ISA / env family
            else:
                isas.append(r.choice(r.choice(fam)))
        self.clients = [{"isa": n, "blocks": [], "maps": []} for n in isas]
        if len(set(c["isa"] for c in self.clients)) < len(self.clients):
            W.st.hit("probe:two-clients-same-env")
        self.template = r.getrandbits(128)
        self.nid = 0
        self.specs = {}
        self.hot = {}
        self.pending = []
        # the sweep of each client ISA: the same single-instruction blocks (a fixed sample of the
        # ISA's specs on two operand templates) are rebuilt and observed at the start of the
        # world and again at random moments of the history
        self.sweeps = {}
        for n in sorted(set(isas)):
            self.sweeps[n] = {"op": "sweep", "isa": n, "T": [r.getrandbits(128), r.getrandbits(128)], "n": SWEEP_N, "seed": r.getrandbits(32), "client": 0}
        self.pending = [dict(v) for _, v in sorted(self.sweeps.items())]
        self.probe_due = False
        self.probe_pos = {}

    def newid(self, p):
        self.nid += 1
        return "%s%d" % (p, self.nid)

    def sem_specs(self, name):
        if name not in self.specs:
            d = self.I.LOADED[name].disassemble
            self.specs[name] = [s for s in self.I.specs_of_set(d, 0) if s.pfx is not True]
        return self.specs[name]

    def real_code(self, r, name):
        """2..6 consecutive instructions of real compiled code (flag setters followed by
        their users, address computations followed by loads ...)"""
        cpu = self.I.LOADED[name]
        code = r.choice(SAMPLES[name])
        off = r.randrange(0, max(1, len(code) - 64))
        if name.endswith(("armv7", "sparc.cpu_v8", "rv32i")):
            off &= ~3
        out = []
        d = cpu.disassemble
        try:
            for _ in range(r.choice([2, 3, 4, 6])):
                i = d(code[off : off + d.maxlen + 4])
                if i is None:
                    break
                out.append(bytes(i.bytes).hex())
                off += i.length
        except Exception:
            pass
        return out

    def new_block(self, r, c):
        name = c["isa"]
        cpu = self.I.LOADED[name]
        en = self.I.insn_endian(cpu)
        S = self.sem_specs(name)
        ins = []
        if SAMPLES.get(name) and r.random() < 0.4:
            ins = self.real_code(r, name)
            if ins:
                bid = self.newid("b")
                c["blocks"].append(bid)
                self.W.st.hit("blocks-from-real-code")
                return {"op": "block", "id": bid, "isa": name, "ins": ins, "addr": r.choice([0x1000, 0x400000]), "client": self.clients.index(c)}
        # swarm: a per-world "hot" subset of the specs is used for most instructions, so that
        # the same few instructions meet again and again in one history (different subsets
        # in different worlds)
        hot = self.hot.get(name)
        if hot is None:
            hot = self.hot[name] = r.sample(S, min(len(S), r.choice([6, 10, 16])))
        for _ in range(r.choice([1, 1, 2, 3, 4])):
            s = r.choice(hot) if r.random() < 0.6 else r.choice(S)
            b = self.I.encode(s, r, endian=en if s.size != 0 else 1, tail=6 if s.size == 0 else 0, template=self.template, flip=0.3)
            if name.endswith(("cpu_x86", "cpu_x64")) and r.random() < 0.35:
                # legacy prefixes select other operand / address sizes and segment forms
                pfx = bytes(r.choice([0x66, 0x67, 0x67, 0xF2, 0xF3, 0x2E, 0x64]) for _ in range(r.choice([1, 1, 2])))
                b = pfx + b
            ins.append(b.hex())
        bid = self.newid("b")
        c["blocks"].append(bid)
        return {"op": "block", "id": bid, "isa": name, "ins": ins, "addr": r.choice([0x1000, 0x1000, 0x400000]), "client": self.clients.index(c)}

    def next(self, r, _):
        if self.pending:
            return self.pending.pop(0)
        if self.probe_due and r.random() < 0.6:
            self.probe_due = False
            c0 = r.choice(self.clients)
            self.probe_pos[c0["isa"]] = self.probe_pos.get(c0["isa"], 0) + 1
            return dict(self.sweeps[c0["isa"]], op="probe", k=self.probe_pos[c0["isa"]], client=self.clients.index(c0))
        self.probe_due = True
        c = r.choice(self.clients)
        ci = self.clients.index(c)
        kinds = [("new", 3), ("eval_old", 5), ("rebuild", 3), ("remap", 1.5), ("elsewhere", 1), ("compose", 1.6), ("extend", 2.5), ("str", 1), ("pickle", 0.7), ("exec1", 1.5), ("exec_ctx", 1.5), ("abort", 0.8), ("mode", 0.3)]
        k = weighted(r, kinds)
        if r.random() < 0.035:
            return dict(self.sweeps[c["isa"]], client=ci, order=r.getrandbits(32))
        if k == "new" or not c["blocks"]:
            if len(c["blocks"]) >= 12:
                k = "rebuild"
            else:
                b = self.new_block(r, c)
                mid = self.newid("m")
                c["maps"].append(mid)
                self.pending = [{"op": "map", "id": mid, "block": b["id"], "client": ci, "via": r.choice(["mapper", "mapper", "node"])}, {"op": "eval", "map": mid, "salts": list(range(SALTS)), "client": ci}]
                return b
        if k == "eval_old" and c["maps"]:
            x = r.random()
            if x < 0.12:
                mid = self.newid("m")
                src = r.choice(c["maps"])
                c["maps"].append(mid)
                self.pending = [{"op": "eval", "map": mid, "salts": list(range(SALTS)), "client": ci}, {"op": "eval", "map": src, "salts": list(range(SALTS)), "client": ci}]
                return {"op": "nodecut", "id": mid, "map": src, "k": r.randrange(8), "client": ci}
            if x < 0.3:
                return {"op": "eval", "map": r.choice(c["maps"]), "salts": [r.randrange(SALTS)], "route": r.choice(["eval", "use"]), "client": ci}
            return {"op": "eval", "map": r.choice(c["maps"]), "salts": list(range(SALTS)), "client": ci}
        if k == "rebuild" and c["blocks"]:
            old = r.choice(c["blocks"])
            blk = self.W.blocks.get(old)
            if blk is None:
                return {"op": "str", "map": None, "block": None, "client": ci}
            bid = self.newid("b")
            mid = self.newid("m")
            c["maps"].append(mid)
            if len(c["maps"]) > 30:
                c["maps"].pop(0)
            self.pending = [{"op": "map", "id": mid, "block": bid, "client": ci}, {"op": "eval", "map": mid, "salts": list(range(SALTS)), "client": ci}]
            return {"op": "block", "id": bid, "isa": blk["isa"], "ins": blk["ins"], "addr": blk["addr"], "client": ci}
        if k == "remap" and c["blocks"]:
            # a new map from the instruction objects decoded earlier (they are held by the
            # client's block; nobody else may have changed them)
            mid = self.newid("m")
            c["maps"].append(mid)
            self.pending = [{"op": "eval", "map": mid, "salts": list(range(SALTS)), "client": ci}]
            return {"op": "map", "id": mid, "block": r.choice(c["blocks"]), "client": ci}
        if k == "elsewhere" and c["blocks"]:
            # the same bytes decoded at another address (a shared / memoised instruction
            # object would drag its address along)
            old = r.choice(c["blocks"])
            blk = self.W.blocks.get(old)
            if blk is not None:
                bid = self.newid("b")
                mid = self.newid("m")
                c["blocks"].append(bid)
                c["maps"].append(mid)
                self.pending = [{"op": "map", "id": mid, "block": bid, "client": ci}, {"op": "eval", "map": mid, "salts": list(range(SALTS)), "client": ci}]
                return {"op": "block", "id": bid, "isa": blk["isa"], "ins": blk["ins"], "addr": blk["addr"] ^ 0x2040, "client": ci}
        if k == "compose" and len(c["maps"]) >= 2:
            mid = self.newid("m")
            c["maps"].append(mid)
            m1 = r.choice(c["maps"][:-1])
            op = {"op": "compose", "id": mid, "m1": m1, "m2": r.choice(c["maps"][:-1]), "client": ci}
            self.pending = [{"op": "eval", "map": mid, "salts": [0], "client": ci}]
            if r.random() < 0.4:
                op["cond"] = r.randrange(1, 9)
                self.pending.append({"op": "eval", "map": m1, "salts": list(range(SALTS)), "client": ci})
            return op
        if k == "extend" and c["maps"] and c["blocks"]:
            mid = self.newid("m")
            src = r.choice(c["maps"])
            c["maps"].append(mid)
            # afterwards: the derived map is observed, and so is the stored one again
            self.pending = [{"op": "eval", "map": mid, "salts": [0], "client": ci}, {"op": "eval", "map": src, "salts": list(range(SALTS)), "client": ci}]
            return {"op": "extend", "id": mid, "map": src, "block": r.choice(c["blocks"]), "how": r.choice(["use", "use", "eval-empty", "assume-empty", "rshift-empty", "lshift-empty"]), "client": ci}
        if k == "str" and c["maps"]:
            return {"op": "str", "map": r.choice(c["maps"]), "block": r.choice(c["blocks"]), "client": ci}
        if k == "pickle" and c["maps"]:
            mid = self.newid("m")
            c["maps"].append(mid)
            self.pending = [{"op": "eval", "map": mid, "salts": list(range(SALTS)), "client": ci}]
            return {"op": "pickle", "id": mid, "map": r.choice(c["maps"][:-1]), "client": ci}
        if k in ("exec1", "exec_ctx") and c["blocks"]:
            return {"op": k, "block": r.choice(c["blocks"]), "client": ci}
        if k == "abort" and c["blocks"]:
            return {"op": "abort", "block": r.choice(c["blocks"]), "after": r.choice([0, 1, 1, 2]), "client": ci}
        if k == "mode":
            return {"op": "mode", "isa": c["isa"], "format": r.choice(["Intel", "AT&T"]), "client": ci}
        return {"op": "str", "map": None, "block": None, "client": ci}


def run(spec):
    if spec.get("kind") == "pairs":
        return run_pairs(spec)
    rng = random.Random(spec.get("seed", 0))
    refsrv = RefServer(_reference, close_fds=[WORLD_PIPE] if WORLD_PIPE is not None else [])
    try:
        W = World(spec, refsrv)
        gen = [None]
        left = [spec.get("steps", 300)]

        def g(r, _):
            if gen[0] is None:
                gen[0] = Gen(r, W, spec.get("family"))
            if left[0] <= 0 and not gen[0].pending:
                return None
            left[0] -= 1
            return gen[0].next(r, None)

        src = OpSource(spec, g)
        viol = None
        sample = None
        while viol is None:
            op = src.next()
            if op is None:
                break
            if len(src.trace) % 50 == 0:
                progress(WORLD_PIPE, {"at": len(src.trace), "op": {k: op[k] for k in op if k != "ins"}})
            viol = W.step(op)
            W.log.event(W.step_no, op.get("op"), op.get("id"), op.get("map"))
            if viol is not None:
                viol["detail"]["recent_writes"] = W.last_writes[:10]
                if spec.get("survey"):
                    sg = viol["signature"] + " " + ",".join(viol["detail"].get("write_sites_since_first") or [])[:300]
                    W.st.hit("survey:" + sg)
                    W.survey.setdefault(sg, {"case": [], "detail": viol["detail"]})
                    # forget the diverging key so that the run can go on
                    kk = viol["detail"].get("key")
                    for key in list(W.first):
                        if kk and list(key)[:4] == kk:
                            del W.first[key]
                    viol = None
        return finish(W, spec, src.trace, viol)
    finally:
        refsrv.close()


def finish(W, spec, trace, viol):
    st = W.st
    digests = []
    ncases = 0
    for key, n in W.seen_count.items():
        ncases += 1
        if n >= 2 and W.decided.get(key, 0) >= 1:
            h = hashlib.sha256(repr(key).encode()).hexdigest()[:24]
            digests.append(h)
    st.hit("observation-keys", ncases)
    st.hit("observation-keys-nontrivial", len(digests))
    h = EventLog()
    for key in sorted(W.first, key=repr):
        h.event(key, W.first[key][0])
    res = {
        "status": "violation" if viol else "ok",
        "digest": h.digest(),
        "steps": W.step_no,
        "nontrivial": len(digests) > 0,
        "case_digests": digests,
        "cases": ncases,
        "stats": st.as_dict(),
        "seed": spec.get("seed"),
        "config": {},
    }
    if W.survey:
        res["survey"] = W.survey
    if viol:
        res["violation"] = viol
        res["trace"] = trace
    elif spec.get("want_sample"):
        res["sample"] = [{k: op[k] for k in op} for op in trace[:8]]
    return res


# ---------------------------------------------------------------------------
# guided layer: polluter x victim pairs
# ---------------------------------------------------------------------------
def run_pairs(spec):
    from .. import isa as I

    name = spec["isa"]
    rng = random.Random(spec.get("seed", 0))
    if name not in I.LOADED:
        return {"status": "ok", "digest": "", "steps": 0, "nontrivial": False, "cases": 0, "stats": {"isa-not-importable": 1}, "config": {}}
    refsrv = RefServer(_reference, close_fds=[WORLD_PIPE] if WORLD_PIPE is not None else [])
    try:
        W = World(spec, refsrv)
        W.track_isa(name)
        W.take_import_snapshot()
        cpu = I.LOADED[name]
        en = I.insn_endian(cpu)
        S = [s for s in I.specs_of_set(cpu.disassemble, 0) if s.pfx is not True]
        n = len(S)
        budget = spec.get("budget", 1000)
        st = W.st
        viol = None
        trace = None
        nid = [0]
        done = 0
        confirmed_none = 0
        digests = []
        collected = {}
        # (1) polluter discovery -- the monitors as a *guide*, never as the oracle: a spec is
        # a polluter candidate when decoding + mapping + executing it (alone, or after a
        # leading instruction) wrote a field of a pre-existing node or a global dict entry
        # at a site that is not listed
        P = []
        mine = S[spec["part"] :: spec["parts"]]
        for p in mine:
            for attempt in range(SCREEN_ATTEMPTS if len(S) <= 400 or spec.get("tier") == "thorough" else 4):
                # (several operand templates: what an instruction writes may depend on a small
                # field of its encoding -- a condition code, an addressing form)
                T = rng.getrandbits(128)
                lead = []
                if attempt % 2 == 1:
                    q = rng.choice(S)
                    lead = [I.encode(q, rng, endian=en if q.size != 0 else 1, tail=6 if q.size == 0 else 0, template=T, flip=0.0).hex()]
                bp = I.encode(p, rng, endian=en if p.size != 0 else 1, tail=6 if p.size == 0 else 0, template=T, flip=0.0).hex()
                nid[0] += 1
                k = nid[0]
                wrote = False
                for op in ({"op": "reset"}, {"op": "block", "id": "d%d" % k, "isa": name, "ins": lead + [bp], "addr": 0x1000, "client": 1}, {"op": "map", "id": "md%d" % k, "block": "d%d" % k, "client": 1}, {"op": "exec1", "block": "d%d" % k, "client": 1}, {"op": "exec_ctx", "block": "d%d" % k, "client": 1}, {"op": "eval", "map": "md%d" % k, "salts": list(range(SALTS)), "client": 1}):
                    W.step(op)
                    if [x for x in W.last_writes if x not in W.known]:
                        wrote = True
                W.blocks.clear()
                W.maps.clear()
                if wrote:
                    P.append((p, lead, T))
                    break
        st.hit("polluter-candidates", len(P))
        st.hit("specs-screened", len(mine))
        # (2) candidates x victims (all of them if they fit the budget), the rest of the
        # budget on uniformly sampled pairs
        plan = []
        if P:
            per = max(1, min(n, budget * 2 // (3 * len(P))))
            hookname = lambda x: getattr(getattr(x, "hook", None), "__name__", None)
            for (p, lead, T) in P:
                # the same kind of instruction in another context first (same spec, then specs
                # decoded by the same setup function: they consult the same tables), then the rest
                fam = [p] + [v for v in S if v is not p and hookname(v) is not None and hookname(v) == hookname(p)][:6]
                for v in fam:
                    plan.append((p, v, lead, T))
                    plan.append((p, v, None, T))
                vs = S if per >= n else rng.sample(S, per)
                for v in vs:
                    plan.append((p, v, lead, T))
        while len(plan) < budget:
            plan.append((rng.choice(mine or S), rng.choice(S), None, None))
        for (p, v, lead0, T0) in plan:
            T = T0 if T0 is not None else rng.getrandbits(128)
            bp = I.encode(p, rng, endian=en if p.size != 0 else 1, tail=6 if p.size == 0 else 0, template=T, flip=0.0)
            bv = I.encode(v, rng, endian=en if v.size != 0 else 1, tail=6 if v.size == 0 else 0, template=T, flip=0.0)
            if name.endswith(("cpu_x86", "cpu_x64")) and rng.random() < 0.3:
                pf = bytes([rng.choice([0x66, 0x67, 0x67])])
                bp, bv = pf + bp, pf + bv
            bp, bv = bp.hex(), bv.hex()
            # the polluter may need something in its map to chew on (flags set by a
            # previous instruction, a loaded value ...): half of the time it is preceded by
            # another instruction on the same operand template
            lead = []
            if lead0 is not None:
                lead = list(lead0)
            elif rng.random() < 0.5:
                q = rng.choice(S)
                lead = [I.encode(q, rng, endian=en if q.size != 0 else 1, tail=6 if q.size == 0 else 0, template=T, flip=0.0).hex()]
            nid[0] += 1
            k = nid[0]
            ops = [
                {"op": "reset"},
                {"op": "block", "id": "v%d" % k, "isa": name, "ins": [bv], "addr": 0x1000, "client": 0},
                {"op": "map", "id": "mv%d" % k, "block": "v%d" % k, "client": 0},
                {"op": "eval", "map": "mv%d" % k, "salts": list(range(SALTS)), "client": 0},
                {"op": "block", "id": "p%d" % k, "isa": name, "ins": lead + [bp], "addr": 0x1000, "client": 1},
                {"op": "map", "id": "mp%d" % k, "block": "p%d" % k, "client": 1},
                {"op": "exec1", "block": "p%d" % k, "client": 1},
                {"op": "exec_ctx", "block": "p%d" % k, "client": 1},
                {"op": "eval", "map": "mp%d" % k, "salts": list(range(SALTS)), "client": 1},
                # (the victim is rebuilt right after the polluter's last evaluation: whatever that
                # left behind has not been overwritten by another evaluation yet)
                {"op": "block", "id": "w%d" % k, "isa": name, "ins": [bv], "addr": 0x1000, "client": 0},
                {"op": "map", "id": "mw%d" % k, "block": "w%d" % k, "client": 0},
                {"op": "eval", "map": "mw%d" % k, "salts": list(range(SALTS)), "client": 0},
                {"op": "eval", "map": "mv%d" % k, "salts": list(range(SALTS)), "client": 0},
            ]
            # each pair is its own little history: forget earlier first-observations
            W.first.clear()
            W.first_dec.clear()
            W.blocks.clear()
            W.maps.clear()
            W.ref_budget = 0
            hit = None
            psites = []
            for op in ops:
                hit = W.step(op)
                # every write site of this little history is a candidate (the victim's own
                # evaluation may be what pollutes its next evaluation)
                psites.extend(x for x in W.last_writes if x not in psites and x not in W.known)
                if hit is not None:
                    break
            done += 1
            st.hit("pair-histories")
            digests.append(hashlib.sha256(("%s|%s|%s" % (name, bp, bv)).encode()).hexdigest()[:24])
            if hit is not None:
                # confirm in a pristine process (the soft reset is not trusted)
                conf_trace = [o for o in ops if o["op"] != "reset"]
                ans = refsrv.query({"trace": conf_trace, "known_keys": sorted(W.known)})
                if ans.get("violation"):
                    hit["detail"]["pair"] = {"polluter": [p.format, bp], "victim": [v.format, bv]}
                    hit["detail"]["recent_writes"] = W.last_writes[:10]
                    hit["detail"]["write_sites_since_first"] = psites[:16]
                    if spec.get("collect"):
                        ck = tuple(sorted(psites))
                        if ck not in collected and len(collected) < 80:
                            collected[ck] = {"trace": conf_trace, "detail": hit["detail"], "class": hit["class"], "signature": hit["signature"]}
                        st.hit("collected-divergent-pairs")
                        continue
                    viol = hit
                    trace = conf_trace
                    break
                st.hit("pair-divergence-not-confirmed-in-pristine-process")
        st.hit("isa-pairs:" + name.replace("amoco.arch.", ""), done)
        res = {
            "status": "violation" if viol else "ok",
            "digest": hashlib.sha256(repr(digests).encode()).hexdigest()[:32],
            "steps": W.step_no,
            "nontrivial": done > 0,
            "case_digests": digests,
            "cases": done,
            "stats": st.as_dict(),
            "seed": spec.get("seed"),
            "config": {},
        }
        if collected:
            res["collected"] = list(collected.values())
        if viol:
            res["violation"] = viol
            res["trace"] = trace
        return res
    finally:
        refsrv.close()


def finalize_coverage(prop, tier, cov, specs, results):
    c = cov["counters"]
    cov["decided_comparisons"] = c.get("decided-comparisons", 0)
    cov["undone_writes_per_site"] = {k[7:]: v for k, v in c.items() if k.startswith("undone:")}
    cov["write_sites_seen"] = {k[5:]: v for k, v in sorted(c.items()) if k.startswith("site:")}
    cov["pair_layer"] = {"pair_histories": c.get("pair-histories", 0), "unconfirmed": c.get("pair-divergence-not-confirmed-in-pristine-process", 0)}
