"""filesim -- C20: program identification is total and reports only format errors.

World: a simulated file system (SimFS) holding one file whose content is a
fault sequence applied to a base (sample file, synthesised minimal image or
random data).  read_program is entered through a path (patched
amoco.system.core.open -> SimFile) or with a bytes argument.  Oracles:
 (1) it returns a recognised object or the raw fallback; ANY escaping exception
     is a violation;
 (2) bounded progress: <= BUDGET interpreter events (function entries + loop
     back-edges, counted with sys.monitoring; deterministic);
 (3) bounded allocation: tracemalloc peak <= 512 MiB + 64 x file size;
 (4) fault-free valid bases are identified as their own format.
"""
import hashlib
import io
import random
import sys
import traceback

from ..world import EventLog, Stats, OpSource, weighted, progress
from ..supervisor import run_seed
from .. import formats as F

PROPERTY_IDS = ["C20"]
LEVEL = "fault_enumeration"
WORLD_TIMEOUT = 240
WORLD_PIPE = None
CONTEXT_OPS = ()
SIGNATURE_KEYED = True
MINIMISE = True

BUDGET = 20_000_000
MEM_BASE = 512 << 20
MEM_PER_BYTE = 64

RULE = (
    "one case = read_program over SimFS with content = fault sequence (1..4 of truncate@k, bit flip, byte set, zeroed "
    "block, duplicated block, dropped block, header/table field overwritten with a boundary value, garbage tail) applied to a "
    "base (every file under tests/samples, 43 synthesised minimal ELF/HEX/SREC/fat images, random data 0..4096 bytes), through "
    "the path route or the bytes route. quick: seeded cases + every 16th truncation + a seeded slice of field x boundary; "
    "thorough: every truncation of every base <= 16 KiB (every 8th above) and every located field x every boundary value. "
    "Non-trivial: at least one fault actually changed the bytes and the parser consumed more than the magic (>= 200 events); "
    "distinct = distinct (base, fault list, route) digests with outcome."
)
ASSUMPTIONS = [
    "budget of 2e7 interpreter events (function entries + backward jumps): the most expensive valid sample costs < 1e5; a loop bounded by a 16-bit file field fits, one driven by a 32-bit field or one that does not consume input does not",
    "allocation bound: tracemalloc peak <= 512 MiB + 64 x file size (thorough: all cases; quick: a seeded quarter). Calibration: a table driven by a 16-bit count of <= 8 KiB objects fits (ELF e_shnum = 65535 builds 290 MB of section headers from a 243-byte file: pathological but bounded, so not a violation of 'unbounded allocation'); a 32-bit count or a loop that does not consume input does not (the repaired Mach-O table reader reached 3 GiB)",
    "short non-EOF reads and EIO are not injected: read_program opens a buffered regular file and the property speaks of content only",
    "an empty or text-only input identified as HEX/SREC/raw is allowed by the statement (a recognised object or the raw fallback)",
    "wall-clock watchdog only protects the harness; a world that stalls below its event budget twice is reported as class stall (decided by wall time, stated as such)",
]
REAL_VS_STUB = {
    "real": ["amoco.system.core.read_program/DataIO", "amoco.system.elf/pe/macho/coff", "amoco.system.structs (core, fields, HEX, SREC)"],
    "stub": ["SimFS/SimFile behind amoco.system.core.open (in-memory file, fault-mutated bytes)"],
    "absent": ["network", "clock", "threads"],
}
PROBES = {
    "C20": [
        "outcome:Elf",
        "outcome:PE",
        "outcome:MachO",
        "outcome:COFF",
        "outcome:HEX",
        "outcome:SREC",
        "outcome:shellcode",
        "route:path",
        "route:bytes",
        "valid-base-identified",
        "memory-measured",
        "corrupted-hex-or-srec-rejected",
        "canary-identified-after-faulty-history",
        "generated-valid-image",
    ]
}

SAMPLE_DIRS = ["arm", "avr", "ebpf", "riscv", "sparc", "wasm", "x64", "x86", "x64/toc.osx", "x64/toc.osx/lib", "x64/toc.osx/include", "."]
BASES = {}
BASE_NAMES = []


def _load_bases():
    import os

    repo = os.path.realpath(os.environ.get("AMOSIM_REPO", "/repo"))
    root = os.path.join(repo, "tests", "samples")
    for d in SAMPLE_DIRS:
        p = os.path.join(root, d)
        if not os.path.isdir(p):
            continue
        for fn in sorted(os.listdir(p)):
            fp = os.path.join(p, fn)
            if os.path.isfile(fp):
                BASES[os.path.normpath(os.path.join(d, fn))] = open(fp, "rb").read()
    for k, v in F.SYNTH.items():
        BASES[k] = v
    BASE_NAMES[:] = sorted(BASES)


def zygote_init():
    import amoco.system.core  # noqa
    from amoco.system import elf, pe, macho, coff  # noqa
    from amoco.system.structs import HEX, SREC  # noqa

    _load_bases()


# ---------------------------------------------------------------------------
# plan (supervisor side: needs the base sizes, reads the files itself)
# ---------------------------------------------------------------------------
def plan(prop, tier, seed):
    _load_bases()
    specs = []
    n, cases = (24, 500) if tier == "quick" else (128, 1500)
    for i in range(n):
        specs.append({"kind": "random", "seed": run_seed(seed, prop, tier, i), "cases": cases, "want_sample": i < 2})
    # enumerated truncations: (base, from, to, step) segments packed into worlds
    segs = []
    for name in BASE_NAMES:
        size = len(BASES[name])
        if tier == "quick":
            step = 16 if size <= 16384 else 128
        else:
            step = 1 if size <= 16384 else 8
        seg = 600
        pts = list(range(0, size, step))
        for a in range(0, len(pts), seg):
            part = pts[a : a + seg]
            segs.append([name, part[0], part[-1] + 1, step, len(part)])
    per_world = 1500 if tier == "quick" else 4000
    k = 0
    cur, n = [], 0
    for sg in segs + [None]:
        if sg is None or n + sg[4] > per_world:
            if cur:
                specs.append({"kind": "enum-trunc", "items": cur, "seed": run_seed(seed, prop, tier + "-trunc", k)})
                k += 1
            cur, n = [], 0
        if sg is not None:
            cur.append(sg[:4])
            n += sg[4]
    # enumerated field x boundary: (base, stride, phase, from, to) segments
    segs = []
    for name in BASE_NAMES:
        fields = F.locate_fields(BASES[name])
        if not fields:
            continue
        total = sum(len(F.boundary_values(f[1], len(BASES[name]))) for f in fields)
        stride, phase = (5, seed % 5) if tier == "quick" else (1, 0)
        cnt = len(range(phase, total, stride))
        for a in range(0, cnt, 500):
            segs.append([name, stride, phase, a, min(cnt, a + 500)])
    per_world = 1200 if tier == "quick" else 3000
    k = 0
    cur, n = [], 0
    for sg in segs + [None]:
        if sg is None or n + (sg[4] - sg[3]) > per_world:
            if cur:
                specs.append({"kind": "enum-field", "items": cur, "seed": run_seed(seed, prop, tier + "-field", k)})
                k += 1
            cur, n = [], 0
        if sg is not None:
            cur.append(sg)
            n += sg[4] - sg[3]
    # fault-free identification of every base
    specs.append({"kind": "fault-free", "seed": run_seed(seed, prop, tier + "-ff", 0)})
    # fault-free identification of generated valid HEX / SREC images of many sizes (the formats
    # without a magic number are tried after COFF, which has none either)
    for i in range(4 if tier == "quick" else 24):
        specs.append({"kind": "valid-variants", "seed": run_seed(seed, prop, tier + "-vv", i), "cases": 110 if tier == "quick" else 300})
    for s in specs:
        s["rlimit_as"] = 6 << 30
    return specs


# ---------------------------------------------------------------------------
# storage seam
# ---------------------------------------------------------------------------
class SimFile(io.BytesIO):
    """in-memory file handed out by SimFS"""

    def __init__(self, data, name):
        io.BytesIO.__init__(self, data)
        self._name = name

    @property
    def name(self):
        return self._name

    @property
    def mode(self):
        return "rb"


class SimFS(object):
    def __init__(self):
        self.files = {}
        self.opened = 0

    def open(self, name, mode="r", *a, **k):
        if isinstance(name, (bytes, bytearray)):
            # what the real open() does with a bytes "path" that is file content
            if b"\0" in name:
                raise ValueError("embedded null byte")
            raise FileNotFoundError(2, "No such file or directory")
        if name in self.files:
            self.opened += 1
            return SimFile(self.files[name], name)
        raise FileNotFoundError(2, "No such file or directory: %r" % (name,))


FS = SimFS()


def install_seam():
    import amoco.system.core as C

    C.open = FS.open


# ---------------------------------------------------------------------------
# faults
# ---------------------------------------------------------------------------
def apply_faults(base, faults, st=None):
    d = bytearray(base)
    changed = 0
    for f in faults:
        k = f["k"]
        before = bytes(d)
        if k == "truncate":
            d = d[: f["at"]]
        elif k == "flip":
            if f["off"] < len(d):
                d[f["off"]] ^= 1 << f["bit"]
        elif k == "set":
            if f["off"] < len(d):
                d[f["off"]] = f["v"]
        elif k == "zero":
            o, n = f["off"], f["n"]
            d[o : o + n] = b"\0" * len(d[o : o + n])
        elif k == "dup":
            o, n = f["off"], f["n"]
            d[o:o] = d[o : o + n]
        elif k == "drop":
            o, n = f["off"], f["n"]
            del d[o : o + n]
        elif k == "field":
            o, n = f["off"], f["size"]
            if o + n <= len(d):
                d[o : o + n] = (f["v"] & ((1 << (8 * n)) - 1)).to_bytes(n, f["endian"])
        elif k == "tail":
            r = random.Random(f["seed"])
            d += bytes(r.randrange(256) for _ in range(f["n"]))
        if bytes(d) != before:
            changed += 1
            if st is not None:
                st.hit("fault:" + k)
    return bytes(d), changed


def gen_faults(r, base):
    n = len(base)
    out = []
    fields = None
    for _ in range(r.choice([1, 1, 1, 2, 2, 3, 4])):
        k = weighted(r, [("truncate", 2), ("flip", 3), ("set", 3), ("zero", 1.5), ("dup", 1), ("drop", 1), ("field", 5), ("group", 2.5), ("tail", 0.7)])
        hdr = min(n, 4096)
        off = (r.randrange(hdr) if r.random() < 0.8 else r.randrange(n)) if n else 0
        if k == "truncate":
            out.append({"k": k, "at": r.randrange(n + 1) if r.random() < 0.6 else r.randrange(min(n, 600) + 1)})
        elif k == "flip":
            out.append({"k": k, "off": off, "bit": r.randrange(8)})
        elif k == "set":
            out.append({"k": k, "off": off, "v": r.choice([0, 0xFF, 0x7F, 0x80, 1])})
        elif k in ("zero", "dup", "drop"):
            out.append({"k": k, "off": off, "n": r.choice([1, 2, 4, 8, 16, 64, 512])})
        elif k == "group":
            # two or three fields of the same header / table entry at once (an offset past
            # the end of file together with a huge size or count, ...)
            if fields is None:
                fields = F.locate_fields(base)
            groups = {}
            for f in fields:
                groups.setdefault(f[3].rsplit(".", 1)[0], []).append(f)
            groups = [g for g in groups.values() if len(g) >= 2]
            if not groups:
                out.append({"k": "set", "off": off, "v": 0xFF})
                continue
            g = r.choice(groups)
            for (fo, fs, fe, lab) in r.sample(g, min(len(g), r.choice([2, 2, 3]))):
                out.append({"k": "field", "off": fo, "size": fs, "endian": fe, "v": r.choice(F.boundary_values(fs, n)), "label": lab})
        elif k == "field":
            if fields is None:
                fields = F.locate_fields(base)
            if not fields:
                out.append({"k": "set", "off": off, "v": 0xFF})
                continue
            fo, fs, fe, lab = r.choice(fields)
            out.append({"k": k, "off": fo, "size": fs, "endian": fe, "v": r.choice(F.boundary_values(fs, n)), "label": lab})
        else:
            out.append({"k": k, "n": r.choice([1, 16, 300]), "seed": r.getrandbits(32)})
    return out


# ---------------------------------------------------------------------------
# budgets
# ---------------------------------------------------------------------------
class BudgetExceeded(BaseException):
    pass


class Meter(object):
    """counts interpreter events (function entries + jumps) with sys.monitoring;
    above the budget every further event raises BudgetExceeded, so a handler
    that swallows it is overrun again at its next call or loop iteration."""

    def __init__(self):
        self.mon = sys.monitoring
        self.tool = self.mon.PROFILER_ID
        self.n = 0
        self.limit = BUDGET
        self.where = None
        self.samples = []
        self.memerr = None
        self.ready = False

    def setup(self):
        if self.ready:
            return
        mon = self.mon
        try:
            mon.use_tool_id(self.tool, "amosim-budget")
        except ValueError:
            pass
        mon.register_callback(self.tool, mon.events.PY_START, self.cb)
        mon.register_callback(self.tool, mon.events.JUMP, self.cb)
        mon.register_callback(self.tool, mon.events.RAISE, self.on_raise)
        self.ready = True

    def on_raise(self, code, off, exc):
        # an allocation request refused by the address-space limit: remember where,
        # whether or not a handler swallows the MemoryError afterwards
        if isinstance(exc, MemoryError) and self.memerr is None:
            # innermost frame inside a format module (the loop or the padding that asks
            # for the memory), else the innermost amoco frame
            f = sys._getframe(1)
            lab = None
            first = None
            while f is not None:
                fn = f.f_code.co_filename
                if "/amoco/" in fn:
                    x = "%s:%s" % (fn.split("/amoco/")[-1], f.f_code.co_qualname)
                    if first is None:
                        first = x
                    if any(p in fn for p, _ in FORMAT_FILES):
                        lab = x
                        break
                f = f.f_back
            self.memerr = lab or first or "?"

    GRACE = 30000  # events after the overrun during which the stack is sampled

    def cb(self, code, off, *a):
        self.n += 1
        if self.n > self.limit:
            over = self.n - self.limit
            if over <= self.GRACE:
                # sample the stack: the frame of the loop that does not end is
                # the last frame common to all samples (callees come and go)
                if over % 997 == 1:
                    self.samples.append(self._stack())
                return
            if self.where is None:
                self.where = self._common()
            raise BudgetExceeded()

    @staticmethod
    def _stack():
        out = []
        f = sys._getframe(2)
        while f is not None:
            fn = f.f_code.co_filename
            if "/amoco/" in fn:
                out.append("%s:%s" % (fn.split("/amoco/")[-1], f.f_code.co_qualname))
            f = f.f_back
        out.reverse()
        return out

    def _common(self):
        if not self.samples:
            return "?"
        pre = self.samples[0]
        for s in self.samples[1:]:
            k = 0
            while k < len(pre) and k < len(s) and pre[k] == s[k]:
                k += 1
            pre = pre[:k]
        fmt = [x for x in pre if any(p in x for p, _ in FORMAT_FILES)]
        return (fmt or pre or ["?"])[-1]

    def start(self, limit):
        self.setup()
        self.n = 0
        self.limit = limit
        self.where = None
        self.samples = []
        self.memerr = None
        self.mon.set_events(self.tool, self.mon.events.PY_START | self.mon.events.JUMP | self.mon.events.RAISE)

    def stop(self):
        self.mon.set_events(self.tool, 0)


METER = Meter()
ALLOWED = ("Elf", "PE", "MachO", "COFF", "HEX", "SREC", "shellcode")
FORMAT_FILES = [("system/elf.py", "elf"), ("system/pe.py", "pe"), ("system/macho.py", "macho"), ("system/coff.py", "coff"), ("structs/HEX.py", "hex"), ("structs/SREC.py", "srec")]


def _active_format(tb_frames):
    for fr in tb_frames:
        for pat, lab in FORMAT_FILES:
            if pat in fr.filename:
                return lab
    return "core"


def _vm_bytes():
    with open("/proc/self/statm") as f:
        return int(f.read().split()[0]) * 4096


def alloc_site(arg, bound):
    """second pass for a case that exceeded the allocation bound: lower the
    address-space limit to (current + bound) and record where the first
    MemoryError is raised (sys.monitoring RAISE event, so that a handler that
    swallows it does not hide the site)"""
    import resource
    import amoco.system.core as C

    mon = sys.monitoring
    tool = mon.DEBUGGER_ID
    found = []

    def on_raise(code, off, exc):
        if isinstance(exc, MemoryError) and not found:
            f = sys._getframe(1)
            lab = None
            while f is not None:
                fn = f.f_code.co_filename
                if "/amoco/" in fn:
                    lab = "%s:%s" % (fn.split("/amoco/")[-1], f.f_code.co_qualname)
                    break
                f = f.f_back
            found.append(lab or "?")

    soft, hard = resource.getrlimit(resource.RLIMIT_AS)
    try:
        mon.use_tool_id(tool, "amosim-alloc")
    except ValueError:
        pass
    mon.register_callback(tool, mon.events.RAISE, on_raise)
    set_events = mon.set_events
    try:
        lim = _vm_bytes() + bound
        if hard != resource.RLIM_INFINITY:
            lim = min(lim, hard)
        resource.setrlimit(resource.RLIMIT_AS, (lim, hard))
        set_events(tool, mon.events.RAISE)
        try:
            C.read_program(arg)
        except BaseException:
            pass
        finally:
            set_events(tool, 0)
    finally:
        resource.setrlimit(resource.RLIMIT_AS, (soft, hard))
        mon.register_callback(tool, mon.events.RAISE, None)
        try:
            mon.free_tool_id(tool)
        except Exception:
            pass
    return found[0] if found else "?"


def one_case(case, st, measure_mem):
    """-> (outcome, violation or None, events)"""
    import amoco.system.core as C

    if "gen" in case:
        base = F.gen_valid(case["gen"])
        st.hit("probe:generated-valid-image")
    else:
        base = BASES.get(case["base"]) if "base" in case else bytes.fromhex(case["data"])
    if base is None:
        st.hit("unknown-base")
        return "skipped", None, 0, 0, 0
    data, changed = apply_faults(base, case.get("faults", []), st)
    route = case.get("route", "path")
    st.hit("probe:route:" + route)
    if route == "path":
        FS.files = {"sim://prog": data}
        arg = "sim://prog"
    else:
        arg = data
    viol = None
    outcome = None
    peak = None
    if measure_mem:
        import tracemalloc

        tracemalloc.start()
        tracemalloc.reset_peak()
    set_events = METER.mon.set_events  # builtin: calling it raises no monitoring event
    tool = METER.tool
    try:
        METER.start(case.get("budget", BUDGET))
        try:
            p = C.read_program(arg)
        finally:
            set_events(tool, 0)
        outcome = type(p).__name__
        if outcome not in ALLOWED:
            viol = {"class": "unexpected-result-type", "signature": "filesim:result:%s" % outcome, "detail": {"type": outcome}}
    except BudgetExceeded:
        outcome = "budget"
    except BaseException as e:  # anything escaping read_program
        if isinstance(e, (KeyboardInterrupt, SystemExit)):
            raise
        tb = traceback.extract_tb(e.__traceback__)
        fr = [t for t in tb if "/amoco/" in t.filename]
        inner = fr[-1] if fr else (tb[-1] if tb else None)
        where = "%s:%s" % (inner.filename.split("/amoco/")[-1], inner.name) if inner else "?"
        fmt = _active_format(fr)
        outcome = "exc:" + type(e).__name__
        viol = {
            "class": "exception-escapes",
            "signature": "filesim:%s:%s@%s" % (fmt, type(e).__name__, where),
            "detail": {"exception": "%s: %s" % (type(e).__name__, str(e)[:200]), "where": where, "format": fmt, "tb": "".join(traceback.format_list(fr[-4:]))[-1500:]},
        }
    finally:
        if measure_mem:
            import tracemalloc

            peak = tracemalloc.get_traced_memory()[1]
            tracemalloc.stop()
    events = METER.n
    if METER.n > METER.limit + METER.GRACE:
        if METER.where is None:
            METER.where = METER._common()
        # decided by the count, whether or not the exception got out
        viol = {
            "class": "budget-exceeded",
            "signature": "filesim:budget@%s" % (METER.where or "?"),
            "detail": {"events": METER.n, "budget": METER.limit, "where": METER.where, "returned": outcome},
        }
        outcome = "budget"
    if METER.memerr is not None and (viol is None or viol["class"] == "exception-escapes"):
        # decided by the refusal itself: some allocation asked for more than the
        # address-space allowance (current size + 768 MiB) of this world
        viol = {
            "class": "memory-exceeded",
            "signature": "filesim:memory@%s" % METER.memerr,
            "detail": {"allocation_site": METER.memerr, "file_size": len(data), "returned": outcome, "how": "allocation refused by RLIMIT_AS (current + 768 MiB)"},
        }
    if viol is None and peak is not None:
        st.hit("probe:memory-measured")
        if peak > MEM_BASE + MEM_PER_BYTE * len(data):
            site = alloc_site(arg, MEM_BASE + MEM_PER_BYTE * len(data))
            viol = {"class": "memory-exceeded", "signature": "filesim:memory@%s" % site, "detail": {"peak": peak, "file_size": len(data), "allocation_site": site, "returned": outcome}}
    if viol is None:
        st.hit("probe:outcome:" + outcome)
        if not case.get("faults") or changed == 0:
            want = F.magic_format(data)
            if want is not None and case.get("valid", False):
                if outcome != want:
                    viol = {"class": "valid-file-misidentified", "signature": "filesim:misidentified:%s-as-%s" % (want, outcome), "detail": {"want": want, "got": outcome}}
                    if case.get("canary"):
                        viol["class"] = "valid-file-misidentified-after-history"
                        viol["signature"] += ":after-history"
                else:
                    st.hit("probe:valid-base-identified")
                    if case.get("canary"):
                        st.hit("probe:canary-identified-after-faulty-history")
        if changed and outcome == "shellcode" and case.get("base", "").startswith(("synth:hex", "synth:srec", "avr/")):
            st.hit("probe:corrupted-hex-or-srec-rejected")
    if viol is not None or outcome.startswith(("exc", "budget")):
        # failed parses leave large cyclic garbage behind; give it back before the next case
        import gc

        gc.collect()
    return outcome, viol, events, changed, len(data)


# bases that are valid files of their format (fault-free identification oracle)
VALID_PREFIX = ("synth:elf", "synth:coff", "synth:hex", "synth:srec")
VALID_SAMPLES = {
    "x86/flow.elf", "x86/loop_simple.elf", "x86/test_full.elf", "x86/test_partial.elf", "x86/test_pie.elf", "x86/prefixes.elf",
    "x86/CoST.exe", "x86/puttygen.exe", "x64/continue.elf64", "x64/cxx.elf64", "x64/flow.elf64", "x64/loop_simple.elf64",
    "x64/merge.elf64", "x64/test_full.elf64", "x64/test_partial.elf64", "x64/toc.osx/toc.mach-o", "x64/toc.osx/lib/libtoc.dylib.mach-o",
    "arm/hw", "arm/sc", "arm/sc.o", "arm/sc_thumb.o", "sparc/saverestore", "sparc/solaris-sed.elf", "ebpf/bpf_patched_prog", "avr/firmware.hex",
}


CANARY_EVERY = 20


def is_valid_base(name):
    return name.startswith(VALID_PREFIX) or name in VALID_SAMPLES


# ---------------------------------------------------------------------------
def gen_record_text(r):
    """Intel-HEX / S-record text whose records carry a VALID checksum but arbitrary
    (possibly inconsistent) count / type / length fields, so that the parser gets past
    the checksum and into the per-record-type code"""
    lines = []
    for _ in range(r.choice([1, 1, 2, 3, 6])):
        if r.random() < 0.6:
            typ = r.choice([0, 1, 2, 3, 4, 5, 5, 6, 0x10])
            data = bytes(r.randrange(256) for _ in range(r.choice([0, 0, 1, 2, 3, 4, 5, 16])))
            cnt = len(data) if r.random() < 0.7 else r.choice([0, 1, 2, 4, 255])
            addr = r.choice([0, 0x100, 0xFFFF])
            rec = bytes([cnt & 0xFF, addr >> 8, addr & 0xFF, typ & 0xFF]) + data
            lines.append(":" + (rec + bytes([(-sum(rec)) & 0xFF])).hex().upper())
        else:
            typ = r.choice([0, 1, 2, 3, 4, 5, 6, 7, 8, 9])
            data = bytes(r.randrange(256) for _ in range(r.choice([0, 1, 2, 3, 4, 8])))
            alen = r.choice([2, 2, 3, 4])
            cnt = alen + len(data) + 1 if r.random() < 0.7 else r.choice([0, 1, 3, 255])
            rec = bytes([cnt & 0xFF]) + bytes(alen) + data
            lines.append("S%d" % typ + (rec + bytes([(~sum(rec)) & 0xFF])).hex().upper())
    sep = r.choice(["\n", "\r\n", "\n"])
    return (sep.join(lines) + (sep if r.random() < 0.8 else "")).encode()


def gen_random_case(r):
    k = r.random()
    if k < 0.06:
        case = {"op": "case", "data": gen_record_text(r).hex(), "faults": []}
    elif k < 0.16:
        n = r.choice([0, 1, 2, 4, 16, 64, 123, 512, 4096])
        case = {"op": "case", "data": bytes(r.randrange(256) for _ in range(n)).hex(), "faults": []}
        # random data led by a magic now and then
        if r.random() < 0.5 and n >= 4:
            magic = r.choice([b"\x7fELF", b"MZ", b"\xfe\xed\xfa\xce", b"\xcf\xfa\xed\xfe", b"\xca\xfe\xba\xbe", b":10", b"S1", b"\x4c\x01"])
            case["data"] = (magic + bytes.fromhex(case["data"])[len(magic) :]).hex()
    else:
        name = r.choice(BASE_NAMES)
        case = {"op": "case", "base": name, "faults": gen_faults(r, BASES[name])}
    case["route"] = r.choice(["path", "path", "bytes"])
    case["mem"] = r.random() < 0.25
    return case


def enum_cases(spec):
    if spec["kind"] == "enum-trunc":
        for (name, lo, hi, step) in spec["items"]:
            for k in range(lo, hi, step):
                yield {"op": "case", "base": name, "faults": [{"k": "truncate", "at": k}], "route": "path" if k % 3 else "bytes", "mem": False}
    else:
        for (name, stride, phase, lo, hi) in spec["items"]:
            base = BASES[name]
            pairs = []
            for (o, n, e, lab) in F.locate_fields(base):
                for v in F.boundary_values(n, len(base)):
                    pairs.append((o, n, e, lab, v))
            pairs = pairs[phase::stride]
            for (o, n, e, lab, v) in pairs[lo:hi]:
                yield {"op": "case", "base": name, "faults": [{"k": "field", "off": o, "size": n, "endian": e, "v": v, "label": lab}], "route": "path", "mem": False}


def shrink_op(op):
    out = []
    fs = op.get("faults") or []
    if len(fs) > 1:
        for i in range(len(fs)):
            o = dict(op)
            o["faults"] = fs[:i] + fs[i + 1 :]
            out.append(o)
    if op.get("mem"):
        o = dict(op)
        o["mem"] = False
        out.append(o)
    if "data" in op and len(op["data"]) > 2:
        o = dict(op)
        o["data"] = op["data"][: (len(op["data"]) // 4) * 2]
        out.append(o)
    return out


def run(spec):
    import resource

    install_seam()
    # address-space allowance of this world: what it has now + 768 MiB.  A request
    # beyond it raises MemoryError at once (no page is touched), which the RAISE
    # monitor attributes to its site.
    soft, hard = resource.getrlimit(resource.RLIMIT_AS)
    lim = _vm_bytes() + (768 << 20)
    if hard != resource.RLIM_INFINITY:
        lim = min(lim, hard)
    resource.setrlimit(resource.RLIMIT_AS, (lim, hard))
    rng = random.Random(spec.get("seed", 0))
    thorough = spec.get("tier") == "thorough"
    if spec["kind"] == "random":
        left = [spec.get("cases", 100)]

        def g(r, _):
            if left[0] <= 0:
                return None
            left[0] -= 1
            return gen_random_case(r)

    elif spec["kind"] in ("enum-trunc", "enum-field"):
        it = enum_cases(spec)

        def g(r, _):
            return next(it, None)

    elif spec["kind"] == "fault-free":
        names = list(BASE_NAMES)
        pos = [0]

        def g(r, _):
            if pos[0] >= 2 * len(names):
                return None
            n = names[pos[0] // 2]
            route = "path" if pos[0] % 2 == 0 else "bytes"
            pos[0] += 1
            return {"op": "case", "base": n, "faults": [], "route": route, "mem": True, "valid": is_valid_base(n)}

    elif spec["kind"] == "valid-variants":
        left = [spec.get("cases", 100)]

        def g(r, _):
            if left[0] <= 0:
                return None
            left[0] -= 1
            kind = r.choice(["hex", "hex", "srec"])
            gen = {
                "kind": kind,
                "seed": r.getrandbits(32),
                # small images, and the sizes at which whole tables of a header-less format fit
                "size": r.choice([r.randint(1, 600), r.randint(3000, 7000), r.randint(3000, 7000), r.randint(7000, 20000)]),
                "reclen": r.choice([16, 16, 16, 32, 8, 20]),
                "eol": r.choice(["\n", "\n", "\r\n"]),
                "style": r.choice(["avr", "avr", "random"]),
            }
            if kind == "srec":
                gen["name"] = r.choice(["HDR", "BOOTLOADER", "fw", "application.s19"])
            return {"op": "case", "gen": gen, "faults": [], "route": r.choice(["path", "bytes"]), "valid": True}

    else:
        g = None
    if g is not None and spec["kind"] in ("random", "enum-field", "enum-trunc"):
        # canaries: identification is a function of the bytes, whatever malformed input the
        # process has parsed before -- every CANARY_EVERY cases a valid sample is identified
        # again (fault-free) and must be claimed by its own format
        inner = g
        cstate = {"n": 0, "k": 0}
        cnames = [n for n in BASE_NAMES if is_valid_base(n)]

        def g(r, _, inner=inner):  # noqa: F811
            cstate["n"] += 1
            if cnames and cstate["n"] % CANARY_EVERY == 0:
                cstate["k"] += 1
                h = int.from_bytes(hashlib.sha256(b"%d|%d" % (spec.get("seed", 0) & 0xFFFFFFFF, cstate["k"])).digest()[:4], "big")
                return {"op": "case", "base": cnames[h % len(cnames)], "faults": [], "route": "path" if h & 0x10000 else "bytes", "valid": True, "canary": True}
            return inner(r, _)

    src = OpSource(spec, g)
    st = Stats()
    wlog = EventLog()
    digests = []
    viol = None
    sample = None
    ncases = 0
    maxev = 0
    survey = {}
    while True:
        case = src.next()
        if case is None:
            break
        ncases += 1
        # progress line: lets the supervisor know which case stalled the world
        progress(WORLD_PIPE, {"case": case})
        mem = bool(case.get("mem")) or thorough
        outcome, v, events, changed, size = one_case(case, st, mem)
        maxev = max(maxev, events)
        d = EventLog()
        d.event(case.get("base") or case.get("data") or case.get("gen"), case.get("faults"), case.get("route"), outcome)
        wlog.event(d.digest())
        st.hit("cases")
        if (changed >= 1 or not case.get("faults")) and events >= 200:
            digests.append(d.digest())
            st.hit("cases-nontrivial")
        if v is not None:
            v["detail"]["case"] = {k: case[k] for k in case if k != "data"}
            if v["signature"] in (spec.get("known_keys") or []):
                # an open known finding (signature-keyed): tally and go on
                st.hit("known-finding:" + v["signature"])
                continue
            if spec.get("survey"):
                sg = v["signature"]
                st.hit("survey:" + sg)
                if sg not in survey:
                    survey[sg] = {"case": case, "detail": v["detail"]}
                continue
            viol = v
            break
        if sample is None and spec.get("want_sample") and ncases == 3:
            sample = case
    res = {
        "status": "violation" if viol else "ok",
        "digest": wlog.digest(),
        "steps": ncases,
        "nontrivial": len(digests) > 0,
        "case_digests": digests,
        "cases": ncases,
        "stats": st.as_dict(),
        "seed": spec.get("seed"),
        "config": {},
        "max_events": maxev,
    }
    if survey:
        res["survey"] = survey
    if viol:
        res["violation"] = viol
        # a case is independent of the ones before it -- unless a canary says otherwise
        res["trace"] = list(src.trace) if viol["class"].endswith("after-history") else [src.trace[-1]]
        # the remaining cases of this world were not run: hand them back
        res["resume"] = {"done": ncases}
    elif sample is not None:
        res["sample"] = sample
    return res


def classify_abnormal(spec, first, again):
    """a world that was killed twice at the same case: stall (decided by wall time)"""
    p1 = (first.get("progress") or {}).get("case")
    p2 = (again.get("progress") or {}).get("case")
    if p1 is None or p1 != p2 or again.get("status") != "timeout":
        return None
    tb = again.get("tb") or ""
    frames = [l.strip() for l in tb.splitlines() if "/amoco/" in l]
    where = frames[0] if frames else "?"
    import re

    m = re.search(r'File ".*?/amoco/(.*?)", line \d+ in (\S+)', where)
    w = "%s:%s" % (m.group(1), m.group(2)) if m else "?"
    return {
        "status": "violation",
        "digest": "",
        "steps": 0,
        "nontrivial": False,
        "stats": {},
        "seed": spec.get("seed"),
        "config": {},
        "trace": [p2],
        "replay_extra": {"timeout": 60},
        "violation": {"class": "stall", "signature": "filesim:stall@%s" % w, "detail": {"case": {k: p2[k] for k in p2 if k != "data"}, "tb": tb[-1500:]}},
    }


def finalize_coverage(prop, tier, cov, specs, results):
    cov["budget_events"] = BUDGET
    cov["max_events_seen"] = max([r.get("max_events", 0) for r in results] or [0])
    cov["bases"] = len(BASE_NAMES)
    en_t = sum(r.get("cases", 0) for s, r in zip(specs, results) if s.get("kind") == "enum-trunc")
    en_f = sum(r.get("cases", 0) for s, r in zip(specs, results) if s.get("kind") == "enum-field")
    cov["enumerated"] = {
        "truncations": en_t,
        "field_x_boundary": en_f,
        "truncation_rule": "every k (step 1) for bases <= 16 KiB, every 8th above" if tier == "thorough" else "every 16th k (every 128th above 16 KiB)",
        "field_rule": "every located field x every boundary value" if tier == "thorough" else "every 5th (field, value) pair",
    }
    cov["exhaustive"] = False
    for k, v in cov["counters"].items():
        if k.startswith("known-finding:"):
            cov["known_findings_tallied"][k[len("known-finding:"):]] = v
