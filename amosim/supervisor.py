"""Supervisor: starts zygotes, dispatches run specs, collects results.

Never imports amoco (DESIGN.md 2.1): the supervisor's own heap must not matter.
"""
import hashlib
import json
import os
import queue
import subprocess
import sys
import tempfile
import threading
import shutil

VERIF = os.path.dirname(os.path.dirname(os.path.abspath(__file__)))
PYTHON = os.environ.get("AMOSIM_PYTHON", "/venv/bin/python")


def run_seed(verif_seed, prop, tier, n):
    h = hashlib.sha256(("%d:%s:%s:%d" % (verif_seed, prop, tier, n)).encode()).digest()
    return int.from_bytes(h[:8], "big")


class Pool(object):
    """N zygotes of one engine.  map(specs) returns results in spec order."""

    def __init__(self, engine, workers=None, hashseed="0", extra_env=None):
        self.engine = engine
        self.workers = workers or int(os.environ.get("AMOSIM_WORKERS", "16"))
        self.hashseed = hashseed
        self.extra_env = extra_env or {}
        self.tmp = tempfile.mkdtemp(prefix="amosim-home-")
        self.procs = []
        self.idle = []
        self.lock = threading.Lock()
        self.closed = False

    # -- zygote management -------------------------------------------------
    def _spawn(self):
        env = dict(os.environ)
        env.update(
            {
                "PYTHONHASHSEED": str(self.hashseed),
                "HOME": self.tmp,
                "AMOCO_LOG_LEVEL": "CRITICAL",
                "PYTHONPATH": VERIF,
                "PYTHONDONTWRITEBYTECODE": "1",
            }
        )
        env.update(self.extra_env)
        p = subprocess.Popen(
            [PYTHON, "-m", "amosim.zygote", self.engine],
            stdin=subprocess.PIPE,
            stdout=subprocess.PIPE,
            stderr=subprocess.PIPE,
            cwd=self.tmp,
            env=env,
            text=True,
            bufsize=1,
        )
        line = p.stdout.readline()
        if not line:
            err = p.stderr.read()
            raise RuntimeError("zygote failed to start:\n" + err[-4000:])
        with self.lock:
            self.procs.append(p)
        # drain stderr in the background so a chatty child cannot block
        t = threading.Thread(target=self._drain, args=(p,), daemon=True)
        t.start()
        return p

    def _acquire(self):
        with self.lock:
            if self.idle:
                return self.idle.pop()
        return self._spawn()

    @staticmethod
    def _drain(p):
        try:
            for _ in p.stderr:
                pass
        except Exception:
            pass

    def close(self):
        self.closed = True
        with self.lock:
            procs, self.procs = self.procs, []
            self.idle = []
        for p in procs:
            try:
                p.stdin.close()
            except Exception:
                pass
        for p in procs:
            try:
                p.wait(timeout=5)
            except Exception:
                p.kill()
        shutil.rmtree(self.tmp, ignore_errors=True)

    def __enter__(self):
        return self

    def __exit__(self, *a):
        self.close()

    # -- dispatch ------------------------------------------------------------
    def map(self, specs, chunk=None, progress=None):
        n = len(specs)
        if n == 0:
            return []
        results = [None] * n
        nw = max(1, min(self.workers, n))
        if chunk is None:
            chunk = max(1, min(16, n // (nw * 4) or 1))
        q = queue.Queue()
        for i in range(0, n, chunk):
            q.put((i, specs[i : i + chunk]))
        errors = []
        done = [0]

        def worker():
            try:
                p = self._acquire()
            except Exception as e:
                errors.append(e)
                return
            jid = 0
            while True:
                try:
                    base, part = q.get_nowait()
                except queue.Empty:
                    break
                jid += 1
                try:
                    p.stdin.write(json.dumps({"id": jid, "runs": part}) + "\n")
                    p.stdin.flush()
                    line = p.stdout.readline()
                    if not line:
                        raise RuntimeError("zygote died")
                    msg = json.loads(line)
                    for k, r in enumerate(msg["results"]):
                        results[base + k] = r
                except Exception as e:
                    for k in range(len(part)):
                        if results[base + k] is None:
                            results[base + k] = {"status": "harness_error", "error": "zygote: %r" % (e,)}
                    try:
                        p.kill()
                    except Exception:
                        pass
                    try:
                        p = self._spawn()
                    except Exception as e2:
                        errors.append(e2)
                        return
                done[0] += len(part)
                if progress:
                    progress(done[0], n)
            with self.lock:
                self.idle.append(p)

        threads = [threading.Thread(target=worker, daemon=True) for _ in range(nw)]
        for t in threads:
            t.start()
        for t in threads:
            t.join()
        if errors and any(r is None for r in results):
            raise RuntimeError("pool failure: %r" % (errors[0],))
        for i, r in enumerate(results):
            if r is None:
                results[i] = {"status": "harness_error", "error": "no result"}
        return results
