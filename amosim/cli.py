"""./check <Cxx> [--tier quick|thorough] [--replay FILE]
   ./check replay FILE
   ./check selftest determinism|mutants [...]"""
import argparse
import os
import sys

from . import PROPERTIES


def main(argv=None):
    argv = list(sys.argv[1:] if argv is None else argv)
    if argv and argv[0] == "replay":
        from .driver import replay_file

        return replay_file(argv[1])
    if argv and argv[0] == "selftest":
        from . import selftest

        return selftest.main(argv[1:])
    ap = argparse.ArgumentParser()
    ap.add_argument("prop")
    ap.add_argument("--tier", default=os.environ.get("VERIF_TIER", "quick"), choices=["quick", "thorough"])
    ap.add_argument("--replay")
    ap.add_argument("--seed", type=int, default=int(os.environ.get("VERIF_SEED", "0") or 0))
    a = ap.parse_args(argv)
    if a.replay:
        from .driver import replay_file

        return replay_file(a.replay)
    if a.prop not in PROPERTIES:
        print("unknown or unclaimed property %s (claimed: %s)" % (a.prop, ", ".join(sorted(PROPERTIES))))
        return 2
    from .driver import Check

    chk = Check(a.prop, PROPERTIES[a.prop], a.tier, a.seed)
    rc = chk.run()
    print("check %s tier=%s seed=%d -> exit %d" % (a.prop, a.tier, a.seed, rc))
    return rc


if __name__ == "__main__":
    sys.exit(main())
