"""amosim -- deterministic simulation with fault injection for bdcht/amoco.

Process model (DESIGN.md 2.1):

  supervisor  (amosim.cli / amosim.supervisor; never imports amoco)
   `- zygote x N   (amosim.zygote; imports amoco from the repo once, installs the
       |            engine's seams, then never executes analysis code)
       `- world     (os.fork of the zygote, one per simulated run; executes one
                     scenario, writes one JSON result on a pipe and _exit()s)

Every choice made in a world is drawn from one random.Random seeded from the
run seed, and is recorded as an explicit operation list (the trace); replay
executes the trace, not the seed.
"""

PROPERTIES = {
    "C08": "memsim",
    "C09": "aliassim",
    "C10": "heapsim_isa",
    "C11": "decsim",
    "C13": "heapsim_alg",
    "C18": "cfgsim",
    "C20": "filesim",
}
