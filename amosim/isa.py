"""ISA registry and spec-driven encoders (imports amoco lazily; zygote/world only)."""
import importlib

# cpu modules shipped by the repo.  avr, ppc32.cpu_e200 and superh.cpu_sh4 do
# not import on the pinned tree; import failures are tolerated and reported.
CPU_MODULES = [
    "amoco.arch.x86.cpu_x86",
    "amoco.arch.x64.cpu_x64",
    "amoco.arch.arm.cpu_armv7",
    "amoco.arch.arm.cpu_armv8",
    "amoco.arch.eBPF.cpu",
    "amoco.arch.eBPF.cpu_bpf",
    "amoco.arch.mips.cpu_r3000",
    "amoco.arch.mips.cpu_r3000LE",
    "amoco.arch.msp430.cpu",
    "amoco.arch.pic.cpu_pic18f46k22",
    "amoco.arch.ppc32.cpu",
    "amoco.arch.riscv.cpu_rv32i",
    "amoco.arch.riscv.cpu_rv64i",
    "amoco.arch.sparc.cpu_v8",
    "amoco.arch.superh.cpu_sh2",
    "amoco.arch.tricore.cpu",
    "amoco.arch.v850.cpu_v850e2s",
    "amoco.arch.w65c02.cpu",
    "amoco.arch.z80.cpu_gb",
    "amoco.arch.z80.cpu_z80",
    "amoco.arch.dwarf.cpu",
    "amoco.arch.wasm.cpu",
    "amoco.arch.avr.cpu",
    "amoco.arch.ppc32.cpu_e200",
    "amoco.arch.superh.cpu_sh4",
]

X86_PREFIXES = [0xF0, 0xF2, 0xF3, 0x26, 0x2E, 0x36, 0x3E, 0x64, 0x65, 0x66, 0x67]
REX = list(range(0x40, 0x50))

LOADED = {}
FAILED = {}


def load_all(names=None):
    for n in names or CPU_MODULES:
        if n in LOADED or n in FAILED:
            continue
        try:
            LOADED[n] = importlib.import_module(n)
        except BaseException as e:  # pinned tree: some modules are broken
            FAILED[n] = "%s: %s" % (type(e).__name__, e)
    return LOADED


def short(name):
    return name.replace("amoco.arch.", "")


def all_specs(d):
    out = []

    def walk(fl):
        f, l = fl
        if f == 0:
            out.extend(l)
        else:
            for k in sorted(l.keys()):
                walk(l[k])

    for t in d.specs:
        walk(t)
    return out


def specs_of_set(d, k):
    out = []

    def walk(fl):
        f, l = fl
        if f == 0:
            out.extend(l)
        else:
            for kk in sorted(l.keys()):
                walk(l[kk])

    walk(d.specs[k])
    return out


def encode(spec, rng, endian=1, tail=0, template=None, flip=0.3):
    """word = fix | (T & ~mask): a byte string accepted by the spec's fixed bits."""
    n = spec.fix.size
    full = (1 << n) - 1
    if template is None:
        t = rng.getrandbits(n)
    else:
        t = template & full
        if flip > 0:
            noise = 0
            for b in range(n):
                if rng.random() < flip / 4:
                    noise |= 1 << b
            t ^= noise
    w = spec.fix.ival | (t & ~spec.mask.ival & full)
    b = w.to_bytes(n // 8, "little")
    if endian == -1:
        b = b[::-1]
    return b + bytes(rng.randrange(256) for _ in range(tail))


def modes_of(name, cpu):
    """decode-mode selectors of an ISA: list of (label, setter callable).  A setter
    sets *every* mode variable of the ISA, so a label fully selects the decode mode."""
    if name.endswith("cpu_armv7"):
        env = importlib.import_module("amoco.arch.arm.v7.env")

        def mk(iset, it, be):
            def f():
                env.internals["isetstate"] = iset
                env.internals["itstate"] = it
                env.internals["ibigend"] = be

            return f

        return [("arm", mk(0, 0, 0)), ("thumb", mk(1, 0, 0)), ("thumb-it", mk(1, 0b0100, 0)), ("arm-be", mk(0, 0, 1))]
    if name.endswith("cpu_armv8"):
        env = importlib.import_module("amoco.arch.arm.v8.env64")

        def mk8(be):
            def f():
                env.internals["ibigend"] = be

            return f

        return [("default", mk8(0)), ("be", mk8(1))]
    if name.endswith(("cpu_x86", "cpu_x64")):
        env = importlib.import_module("amoco.arch.x86.env" if name.endswith("cpu_x86") else "amoco.arch.x64.env")

        def mkx(bits):
            def f():
                env.internals["mode"] = bits

            return f

        if name.endswith("cpu_x86"):
            return [("default", mkx(32)), ("m16", mkx(16))]
        return [("default", mkx(64)), ("m32", mkx(32)), ("m16", mkx(16))]
    return [("default", lambda: None)]


def mode_set(name, label):
    """index of the spec set (disassembler.specs[k]) a decode mode selects"""
    if name.endswith("cpu_armv7") and label.startswith("thumb"):
        return 1
    return 0


def insn_endian(cpu):
    try:
        return cpu.disassemble.endian()
    except Exception:
        return 1
