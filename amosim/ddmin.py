"""Delta debugging over explicit traces; every candidate runs in a fresh world."""


def ddmin(trace, test_many, max_rounds=400):
    """trace: list of ops.  test_many(list_of_traces) -> list of bool (True =
    still fails the same way).  Returns a 1-minimal-ish failing trace."""
    cur = list(trace)
    n = 2
    rounds = 0
    while len(cur) >= 2 and rounds < max_rounds:
        rounds += 1
        size = len(cur)
        chunk = max(1, size // n)
        subsets = [cur[i : i + chunk] for i in range(0, size, chunk)]
        complements = []
        for k in range(len(subsets)):
            c = []
            for j, s in enumerate(subsets):
                if j != k:
                    c.extend(s)
            complements.append(c)
        cands = subsets + complements if n > 2 else subsets + complements
        # dedupe, keep order; skip the empty and the identical candidate
        seen = set()
        uniq = []
        for c in cands:
            key = repr(c)
            if key in seen or len(c) == 0 or len(c) == size:
                continue
            seen.add(key)
            uniq.append(c)
        if not uniq:
            break
        verdicts = test_many(uniq)
        hit = None
        # prefer the smallest failing candidate
        for c, v in sorted(zip(uniq, verdicts), key=lambda cv: len(cv[0])):
            if v:
                hit = c
                break
        if hit is not None:
            cur = hit
            n = max(2, min(n - 1, len(cur)))
        else:
            if n >= size:
                break
            n = min(size, n * 2)
    return cur


def shrink_ops(trace, shrink_op, test_many, max_rounds=60):
    """Per-op simplification: shrink_op(op) -> list of simpler ops."""
    cur = list(trace)
    rounds = 0
    progress = True
    while progress and rounds < max_rounds:
        progress = False
        rounds += 1
        cands = []
        for idx, op in enumerate(cur):
            for alt in shrink_op(op) or []:
                if alt != op:
                    c = list(cur)
                    c[idx] = alt
                    cands.append(c)
        if not cands:
            break
        cands = cands[:256]
        verdicts = test_many(cands)
        for c, v in zip(cands, verdicts):
            if v:
                cur = c
                progress = True
                break
    return cur
