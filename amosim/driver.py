"""The check flow shared by all engines (supervisor side; no amoco import).

exit 0: every explored run held (known findings printed as KNOWN-FINDING lines)
exit 1: VIOLATION line(s) for failures that replay and are not listed
exit 3: harness error (non-determinism, non-replaying failure, repeated kill)
"""
import collections
import importlib
import json
import os
import re
import subprocess
import sys
import time

from . import ddmin as dd
from .supervisor import Pool, run_seed, VERIF

KNOWN_FILE = os.path.join(VERIF, "known_findings.txt")


# --------------------------------------------------------------------------
# known findings
# --------------------------------------------------------------------------
def load_known(prop):
    """-> (open entries [dict(key, witness, what)], fixed entries [str])"""
    opened, fixed = [], []
    if not os.path.exists(KNOWN_FILE):
        return opened, fixed
    for line in open(KNOWN_FILE):
        line = line.strip()
        if not line or line.startswith("#"):
            continue
        m = re.match(r"open:\s+property=(\S+)\s+key=(\S+)\s+witness=(\S+)\s+::\s+(.*)$", line)
        if m:
            if m.group(1) == prop:
                opened.append({"key": m.group(2), "witness": m.group(3), "what": m.group(4)})
            continue
        m = re.match(r"fixed:\s+property=(\S+)\s+(.*)$", line)
        if m and m.group(1) == prop:
            fixed.append(m.group(2))
    return opened, fixed


def repo_rev():
    repo = os.environ.get("AMOSIM_REPO", "/repo")
    try:
        rev = subprocess.run(
            ["git", "-C", repo, "rev-parse", "HEAD"], capture_output=True, text=True, timeout=20
        ).stdout.strip()
        dirty = bool(
            subprocess.run(
                ["git", "-C", repo, "status", "--porcelain", "--untracked-files=no"],
                capture_output=True,
                text=True,
                timeout=20,
            ).stdout.strip()
        )
    except Exception:
        rev, dirty = "unknown", False
    return rev, dirty


# --------------------------------------------------------------------------
class HarnessError(Exception):
    pass


class Check(object):
    def __init__(self, prop, engine_name, tier, seed, out=sys.stdout):
        self.prop = prop
        self.engine_name = engine_name
        self.engine = importlib.import_module("amosim.engines." + engine_name)
        self.tier = tier
        self.seed = seed
        self.out = out
        self.opened, self.fixed = load_known(prop)
        self.known_keys = [e["key"] for e in self.opened]
        self.pool = None
        self.t0 = time.time()
        # wall-clock cap on the exploration phase (0 = none): the thorough tier stops scheduling
        # new worlds after 25 minutes unless told otherwise, and says so in its evidence
        self.wall_cap = float(os.environ.get("AMOSIM_WALL_S", "1500" if tier == "thorough" else "0") or 0)
        self.messages = []
        self.phases = []
        self._pt = self.t0

    def phase(self, name):
        now = time.time()
        self.phases.append([name, round(now - self._pt, 2)])
        self._pt = now

    def say(self, *a):
        print(*a, file=self.out)
        self.out.flush()

    # -- spec helpers --------------------------------------------------------
    def finish_spec(self, spec, avoid=True):
        spec.setdefault("prop", self.prop)
        spec.setdefault("tier", self.tier)
        spec["known_keys"] = list(self.known_keys) if avoid else []
        spec.setdefault("timeout", getattr(self.engine, "WORLD_TIMEOUT", 60))
        return spec

    def trace_spec(self, config, trace, avoid=True, extra=None):
        s = {"kind": "trace", "config": config, "trace": trace}
        if extra:
            s.update(extra)
        return self.finish_spec(s, avoid)

    # -- abnormal results ----------------------------------------------------
    def settle_abnormal(self, specs, results):
        """Re-run, alone, every world that timed out / crashed / errored.  A
        result that is abnormal twice is handed to the engine (C20 turns a
        repeated stall into a violation); otherwise it is a harness error."""
        bad = [i for i, r in enumerate(results) if r["status"] in ("timeout", "crash", "harness_error")]
        herr = []
        for i in bad[:40]:
            first = results[i]
            spec = dict(specs[i])
            spec["timeout"] = spec.get("timeout", 60) * 2
            again = self.pool.map([spec], chunk=1)[0]
            if again["status"] in ("timeout", "crash", "harness_error"):
                conv = getattr(self.engine, "classify_abnormal", None)
                v = conv(spec, first, again) if conv else None
                if v is not None:
                    results[i] = v
                else:
                    herr.append((i, again))
            else:
                again.setdefault("stats", {})
                results[i] = again
                self.messages.append("run %d: %s on first attempt, fine when re-run alone" % (i, first["status"]))
        if len(bad) > 40:
            herr.extend((i, results[i]) for i in bad[40:])
        return herr

    # -- minimisation ----------------------------------------------------------
    def _same_failure(self, res, vclass):
        if vclass == "stall":  # decided by wall time: the candidate stalls again
            return res.get("status") == "timeout"
        return res.get("status") == "violation" and res.get("violation", {}).get("class") == vclass

    def minimise(self, res):
        config = res["config"]
        trace = res["trace"]
        vclass = res["violation"]["class"]
        extra = res.get("replay_extra")

        def test_many(cands):
            specs = [self.trace_spec(config, c, extra=extra) for c in cands]
            rs = self.pool.map(specs, chunk=1)
            return [self._same_failure(r, vclass) for r in rs]

        if not getattr(self.engine, "MINIMISE", True):
            return trace
        # long process histories: first find a short failing suffix (the latest
        # context op -- episode / config -- before the cut is carried along)
        ctx = getattr(self.engine, "CONTEXT_OPS", ())
        if len(trace) > 16:
            cands = []
            k = 1
            while k < len(trace):
                cut = len(trace) - k
                pre = []
                for j in range(cut - 1, -1, -1):
                    if trace[j].get("op") in ctx:
                        pre = [trace[j]]
                        break
                if trace[cut].get("op") in ctx:
                    pre = []
                cands.append(pre + trace[cut:])
                k *= 2
            verdicts = test_many(cands)
            for c, v in zip(cands, verdicts):
                if v:
                    trace = c
                    break
        t = dd.ddmin(trace, test_many)
        sh = getattr(self.engine, "shrink_op", None)
        if sh:
            t = dd.shrink_ops(t, sh, test_many)
            t = dd.ddmin(t, test_many, max_rounds=50)
        return t

    def report_violation(self, res, idx):
        """minimise, replay, write the replay file; returns (path, final result)."""
        before = len(res["trace"])
        trace = self.minimise(res)
        extra = res.get("replay_extra")
        spec = self.trace_spec(res["config"], trace, extra=extra)
        final = self.pool.map([spec], chunk=1)[0]
        vclass0 = res["violation"]["class"]
        if not self._same_failure(final, vclass0) and final.get("status") != "violation":
            # minimised trace does not replay: fall back to the original
            spec = self.trace_spec(res["config"], res["trace"], extra=extra)
            final = self.pool.map([spec], chunk=1)[0]
            trace = res["trace"]
            if not self._same_failure(final, vclass0) and final.get("status") != "violation":
                raise HarnessError(
                    "failure of run %d does not replay (class %s)" % (idx, res["violation"].get("class"))
                )
        if final.get("status") == "timeout":  # stall class: keep the recorded verdict
            final = {"status": "violation", "violation": res["violation"]}
        rev, dirty = repo_rev()
        sig = final["violation"].get("signature", final["violation"]["class"])
        doc = {
            "property": self.prop,
            "engine": self.engine_name,
            "seed": res.get("seed"),
            "tier": self.tier,
            "config": res["config"],
            "trace": trace,
            "replay_extra": extra,
            "violation_class": final["violation"]["class"],
            "signature": sig,
            "detail": final["violation"].get("detail"),
            "minimised_from": before,
            "amoco_rev": rev,
            "dirty": dirty,
        }
        d = os.path.join(os.environ.get("AMOSIM_REPLAY_DIR") or os.path.join(VERIF, "replays"), self.prop)
        os.makedirs(d, exist_ok=True)
        fn = re.sub(r"[^A-Za-z0-9_.@-]+", "_", sig)[:80]
        path = os.path.join(d, "%s-%s.json" % (fn, res.get("seed", "x")))
        with open(path, "w") as f:
            json.dump(doc, f, indent=1, sort_keys=True)
        return path, final

    # -- known findings ----------------------------------------------------------
    def replay_known(self):
        reproduced = []
        for e in self.opened:
            path = os.path.join(VERIF, e["witness"])
            doc = json.load(open(path))
            spec = self.trace_spec(doc["config"], doc["trace"], avoid=False, extra=doc.get("replay_extra"))
            r = self.pool.map([spec], chunk=1)[0]
            if r.get("status") == "violation":
                self.say("KNOWN-FINDING: property=%s %s [key=%s]" % (self.prop, e["what"], e["key"]))
                reproduced.append(e["key"])
        return reproduced

    # -- main ----------------------------------------------------------------------
    def run(self):
        eng = self.engine
        specs = [self.finish_spec(s) for s in eng.plan(self.prop, self.tier, self.seed)]
        if self.wall_cap:
            # a capped run explores a prefix of the plan: spread the kinds of worlds evenly over it
            kinds = collections.Counter(s.get("kind") for s in specs)
            seen = collections.Counter()
            pos = []
            for s in specs:
                k = s.get("kind")
                pos.append((seen[k] + 0.5) / kinds[k])
                seen[k] += 1
            specs = [s for _, _, s in sorted(zip(pos, range(len(specs)), specs), key=lambda x: (x[0], x[1]))]
        workers = int(os.environ.get("AMOSIM_WORKERS", "16"))
        self.pool = Pool(self.engine_name, workers=workers)
        try:
            return self._run(specs)
        finally:
            self.pool.close()

    def _run(self, specs):
        eng = self.engine
        self.phase("startup")
        reproduced = self.replay_known()
        # an open entry whose witness no longer fails suppresses nothing: its carve-out
        # (undo site / scenario predicate / signature) is dropped for this run
        stale = [k for k in self.known_keys if k not in reproduced]
        if stale:
            for k in stale:
                self.say("note: the witness of open finding %s no longer fails on this tree; its carve-out is not applied" % k)
                self.messages.append("witness of open finding %s did not reproduce: carve-out dropped" % k)
            self.known_keys = [k for k in self.known_keys if k in reproduced]
            for s in specs:
                s["known_keys"] = [k for k in s.get("known_keys", []) if k in reproduced]
        self.phase("known-findings-replay")
        # wall-clock cap: schedule in slices so that we can stop early
        results = []
        partial = False
        slice_n = max(int(os.environ.get("AMOSIM_WORKERS", "16")), len(specs) // 20)
        pos = 0
        while pos < len(specs):
            if self.wall_cap and time.time() - self.t0 > self.wall_cap:
                partial = True
                break
            part = specs[pos : pos + slice_n]
            results.extend(self.pool.map(part))
            pos += len(part)
        done_specs = specs[: len(results)]
        self.phase("exploration")
        herr = self.settle_abnormal(done_specs, results)
        self.phase("settle-abnormal")

        # determinism: double-run a few seeds in this very check
        ndet = min(getattr(eng, "DET_RUNS", 8), len(done_specs))
        det_idx = [int(i * len(done_specs) / ndet) for i in range(ndet)] if ndet else []
        det_again = self.pool.map([done_specs[i] for i in det_idx], chunk=1)
        det_bad = []
        for i, r2 in zip(det_idx, det_again):
            r1 = results[i]
            if r1.get("status") in ("ok", "carved", "violation") and r2.get("status") in ("ok", "carved", "violation"):
                if r1.get("digest") != r2.get("digest") or r1.get("status") != r2.get("status"):
                    det_bad.append(i)

        self.phase("determinism-double-runs")
        # violations: group by signature, minimise one per group
        viol = [(i, r) for i, r in enumerate(results) if r.get("status") == "violation"]
        groups = collections.OrderedDict()
        for i, r in viol:
            groups.setdefault(r["violation"].get("signature", r["violation"]["class"]), []).append((i, r))
        reported = []
        tallied = collections.Counter()
        sig_known = getattr(eng, "SIGNATURE_KEYED", False)
        for sig, members in groups.items():
            if sig_known and sig in self.known_keys:
                tallied[sig] += len(members)
                continue
            if len(reported) >= int(os.environ.get("AMOSIM_MAX_REPORTS", "6")):
                reported.append((sig, None, len(members)))
                continue
            i, r = members[0]
            try:
                path, final = self.report_violation(r, i)
            except HarnessError as e:
                herr.append((i, {"status": "harness_error", "error": str(e)}))
                continue
            fsig = final["violation"].get("signature", final["violation"]["class"])
            if sig_known and fsig in self.known_keys:
                tallied[fsig] += len(members)
                try:
                    os.unlink(path)
                except OSError:
                    pass
                continue
            reported.append((fsig, path, len(members)))

        for sig, path, n in reported:
            if path is None:
                self.say("note: %d more failing runs with signature %s (not minimised)" % (n, sig))
            else:
                self.say("VIOLATION property=%s replay=%s  # %s, %d run(s)" % (self.prop, path, sig, n))

        self.phase("minimise-and-replay")
        # evidence
        wall = time.time() - self.t0
        self.write_evidence(done_specs, results, wall, partial, reproduced, tallied, reported, herr, det_bad, len(specs))

        if reported:
            return 1
        if det_bad:
            self.say("HARNESS-ERROR: non-deterministic digests for runs %s" % det_bad)
            return 3
        if herr:
            for i, r in herr[:5]:
                self.say("HARNESS-ERROR: run %s: %s %s" % (i, r.get("status"), (r.get("error") or r.get("tb") or "")[:800]))
            return 3
        return 0

    # -- evidence -----------------------------------------------------------------------
    def write_evidence(self, specs, results, wall, partial, reproduced, tallied, reported, herr, det_bad, planned):
        eng = self.engine
        stats = collections.Counter()
        digests = set()
        nontrivial = 0
        steps = 0
        status = collections.Counter()
        samples = []
        cases = 0
        for s, r in zip(specs, results):
            status[r.get("status")] += 1
            cases += r.get("cases", 1) if r.get("status") in ("ok", "carved", "violation") else 0
            for dg in r.get("case_digests") or []:
                digests.add(dg)
            for k, v in (r.get("stats") or {}).items():
                stats[k] += v
            steps += r.get("steps", 0)
            if r.get("nontrivial") and r.get("digest"):
                if "case_digests" not in r:
                    digests.add(r["digest"])
                nontrivial += 1
            if r.get("sample") is not None and len(samples) < 3:
                samples.append(r["sample"])
        if not samples:
            samples = [{"spec": {k: v for k, v in s.items() if k not in ("known_keys",)}} for s in specs[:2]]
        fault_kinds = {k[len("fault:") :]: v for k, v in stats.items() if k.startswith("fault:")}
        probes = {k[len("probe:") :]: v for k, v in stats.items() if k.startswith("probe:")}
        for p in getattr(eng, "PROBES", {}).get(self.prop, []):
            probes.setdefault(p, 0)
        other = {k: v for k, v in stats.items() if not k.startswith(("fault:", "probe:"))}
        cov = {
            "evaluations": cases,
            "worlds": len(results),
            "distinct_nontrivial": len(digests),
            "rule": eng.RULE[self.prop] if isinstance(eng.RULE, dict) else eng.RULE,
            "samples": samples,
            "planned_runs": planned,
            "partial": partial,
            "nontrivial_worlds": nontrivial,
            "status_counts": dict(status),
            "logical_steps": steps,
            "simulated_time_note": "no anchored code reads a clock; simulated time is the logical step count",
            "runs_per_hour": int(cases / wall * 3600) if wall > 0 else 0,
            "worlds_per_hour": int(len(results) / wall * 3600) if wall > 0 else 0,
            "seeds": {"VERIF_SEED": self.seed, "derivation": "sha256(VERIF_SEED:property:tier:run#)[:8]"},
            "fault_kinds": fault_kinds,
            "probes": probes,
            "probes_at_zero": sorted(k for k, v in probes.items() if v == 0),
            "counters": other,
            "known_findings_open": self.known_keys,
            "known_findings_reproduced": reproduced,
            "known_findings_tallied": dict(tallied),
            "fixed_entries": self.fixed,
            "real_vs_stub": getattr(eng, "REAL_VS_STUB", {}),
            "determinism_double_runs": {"checked": min(getattr(eng, "DET_RUNS", 8), len(specs)), "mismatches": len(det_bad)},
            "harness_errors": len(herr),
            "messages": self.messages[:20],
            "phase_wall_s": self.phases,
            "workers": int(os.environ.get("AMOSIM_WORKERS", "16")),
            "exhaustive": False,
        }
        fin = getattr(eng, "finalize_coverage", None)
        if fin:
            fin(self.prop, self.tier, cov, specs, results)
        rev, dirty = repo_rev()
        ev = {
            "property_id": self.prop,
            "tier": self.tier,
            "seed": self.seed,
            "level": eng.LEVEL[self.prop] if isinstance(eng.LEVEL, dict) else eng.LEVEL,
            "coverage": cov,
            "assumptions": list(getattr(eng, "ASSUMPTIONS", {}).get(self.prop, []))
            if isinstance(getattr(eng, "ASSUMPTIONS", None), dict)
            else list(getattr(eng, "ASSUMPTIONS", [])),
            "wall_s": round(wall, 2),
            "violations": sum(n for _, _, n in reported),
            "amoco_rev": rev,
            "amoco_dirty": dirty,
        }
        d = os.environ.get("AMOSIM_EVIDENCE_DIR") or os.path.join(VERIF, "evidence")
        os.makedirs(d, exist_ok=True)
        tmp = os.path.join(d, ".%s.json.tmp" % self.prop)
        with open(tmp, "w") as f:
            json.dump(ev, f, indent=1, sort_keys=True)
        os.replace(tmp, os.path.join(d, "%s.json" % self.prop))


def replay_file(path, out=sys.stdout):
    doc = json.load(open(path))
    prop = doc["property"]
    chk = Check(prop, doc["engine"], doc.get("tier", "quick"), 0, out)
    chk.pool = Pool(doc["engine"], workers=1)
    try:
        # witnesses of known findings replay on unmodified amoco (no undo / no carve-out);
        # any other replay file reproduces what the check saw (listed sites undone)
        is_known = os.sep + os.path.join("replays", "known") + os.sep in os.path.abspath(path) or os.sep + os.path.join("replays", "fixed") + os.sep in os.path.abspath(path)
        spec = chk.trace_spec(doc["config"], doc["trace"], avoid=not is_known, extra=doc.get("replay_extra"))
        r = chk.pool.map([spec], chunk=1)[0]
    finally:
        chk.pool.close()
    if r.get("status") == "violation":
        same = r["violation"]["class"] == doc.get("violation_class") and r["violation"].get("signature") == doc.get("signature")
        print(
            "REPLAY: violation reproduced class=%s signature=%s%s"
            % (r["violation"]["class"], r["violation"].get("signature"), "" if same else "  (DIFFERS from recorded %s/%s)" % (doc.get("violation_class"), doc.get("signature"))),
            file=out,
        )
        print(json.dumps(r["violation"].get("detail"), indent=1)[:4000], file=out)
        print("VIOLATION property=%s replay=%s" % (prop, path), file=out)
        return 1
    print("REPLAY: no violation (status=%s)" % r.get("status"), file=out)
    if r.get("status") not in ("ok", "carved"):
        print(json.dumps(r)[:3000], file=out)
        return 3
    return 0
